(* Lemmas about Models/Synclib.v: pad/slice round trip, responses of the transport on uniform
   families, losslessness of send_tensors / sync_obj / sync_list / sync_dict and the addressing
   of sync_states. *)
From Coq Require Import ZArith List Bool String Arith Lia.
From TE Require Import Base.Val Models.Proto Models.Synclib Proofs.ProtoP.
Import ListNotations.
Open Scope string_scope.
Open Scope list_scope.

(* ------------------------------------------------------------------ pad / slice *)
Fixpoint td_ind' (P : td -> Prop) (HS : forall v, P (TSc v))
  (HA : forall l, Forall P l -> P (TArr l)) (x : td) : P x :=
  match x with
  | TSc v => HS v
  | TArr l => HA l ((fix go (l : list td) : Forall P l :=
                      match l with [] => Forall_nil _ | y :: r => Forall_cons _ (td_ind' P HS HA y) (go r) end) l)
  end.

Fixpoint wf (s : list nat) (x : td) : Prop :=
  match s, x with
  | [], TSc _ => True
  | k :: s', TArr l => List.length l = k /\
      (fix all (l : list td) : Prop := match l with [] => True | y :: r => wf s' y /\ all r end) l
  | _, _ => False
  end.
Fixpoint le_shape (s m : list nat) : Prop :=
  match s, m with [], [] => True | a :: s', b :: m' => a <= b /\ le_shape s' m' | _, _ => False end.

Lemma wf_all s' l :
  (fix all (l : list td) : Prop := match l with [] => True | y :: r => wf s' y /\ all r end) l
  <-> Forall (wf s') l.
Proof. induction l as [|y r IH]; split; intros H; try constructor; try tauto; inversion H; subst; tauto. Qed.

Lemma wf_cons k s' l : wf (k :: s') (TArr l) <-> List.length l = k /\ Forall (wf s') l.
Proof. cbn [wf]. rewrite wf_all. reflexivity. Qed.

Theorem pad_slice_roundtrip : forall x s m, wf s x -> le_shape s m -> slice s (pad m x) = x.
Proof.
  induction x as [z|l IH] using td_ind'; intros s m Hwf Hle.
  - destruct s; [|destruct Hwf]. destruct m; [reflexivity|destruct Hle].
  - destruct s as [|k s']; [destruct Hwf|]. destruct m as [|km m']; [destruct Hle|].
    apply wf_cons in Hwf. destruct Hwf as [Hlen Hall]. destruct Hle as [Hk Hle'].
    cbn [pad slice]. f_equal.
    rewrite firstn_app, map_length, firstn_all2 by (rewrite map_length; lia).
    replace (k - List.length l) with 0 by lia. cbn [firstn]. rewrite app_nil_r, map_map.
    clear Hlen Hk. induction l as [|y r IHr]; [reflexivity|].
    inversion IH as [|? ? Hy Hr]; subst. inversion Hall as [|? ? Hwy Hwr]; subst.
    cbn [map]. rewrite (Hy s' m' Hwy Hle'), (IHr Hr Hwr). reflexivity.
Qed.

Lemma wf_zeros : forall s, wf s (zeros s).
Proof.
  induction s as [|k s IH]; [exact I|]. cbn [zeros]. apply wf_cons. split; [apply repeat_length|].
  apply Forall_forall. intros x Hx. apply repeat_spec in Hx. subst. exact IH.
Qed.

Lemma le_shape_refl : forall s, le_shape s s.
Proof. induction s; cbn; auto. Qed.
Lemma le_shape_length : forall s m, le_shape s m -> List.length s = List.length m.
Proof. induction s as [|a s IH]; intros [|b m] H; cbn in *; try tauto. destruct H. f_equal. auto. Qed.

(* ------------------------------------------------------------------ shapes *)
Lemma list_eqb_spec {X} (e : X -> X -> bool) (He : forall a b, e a b = true <-> a = b) :
  forall a b, list_eqb e a b = true <-> a = b.
Proof.
  induction a as [|x a IH]; intros [|y b]; cbn; split; intros H; try congruence; try discriminate.
  - apply andb_true_iff in H as [H1 H2]. apply He in H1. apply IH in H2. congruence.
  - inversion H; subst. apply andb_true_iff. split; [apply He|apply IH]; reflexivity.
Qed.
Lemma shp_eqb_spec a b : shp_eqb a b = true <-> a = b.
Proof. apply list_eqb_spec. intros; apply Nat.eqb_eq. Qed.
Lemma shp_eqb_refl a : shp_eqb a a = true.
Proof. apply shp_eqb_spec. reflexivity. Qed.

Lemma to_of_shape s : to_shape (of_shape s) = s.
Proof.
  unfold to_shape, of_shape. cbn [dat]. rewrite map_map.
  rewrite <- (map_id s) at 2. apply map_ext. intros k. apply Nat2Z.id.
Qed.

Lemma map2_map {X Y Z W} (f : Y -> Z -> W) (a : X -> Y) (b : X -> Z) (xs : list X) :
  map2 f (map a xs) (map b xs) = map (fun x => f (a x) (b x)) xs.
Proof. induction xs as [|x xs IH]; cbn [map map2]; [reflexivity|]. f_equal. exact IH. Qed.

Lemma map2_max_length : forall s m, List.length s = List.length m -> List.length (map2 Nat.max s m) = List.length s.
Proof. induction s as [|a s IH]; intros [|b m] H; cbn in *; try lia. f_equal. apply IH. lia. Qed.
Lemma le_map2_max_l : forall s m, List.length s = List.length m -> le_shape s (map2 Nat.max s m).
Proof. induction s as [|a s IH]; intros [|b m] H; cbn in *; try lia; try exact I. split; [lia|apply IH; lia]. Qed.
Lemma le_map2_max_r : forall s' s m, le_shape s' m -> List.length s = List.length m -> le_shape s' (map2 Nat.max s m).
Proof.
  induction s' as [|a s' IH]; intros [|c s] [|b m] H Hl; cbn in *; try lia; try tauto.
  destruct H. split; [lia|apply IH; [assumption|lia]].
Qed.

Lemma maxshape_cons2 s s1 r : maxshape (s :: s1 :: r) = map2 Nat.max s (maxshape (s1 :: r)).
Proof. reflexivity. Qed.

Lemma maxshape_ge : forall ss d, (forall s, In s ss -> List.length s = d) ->
  (ss <> [] -> List.length (maxshape ss) = d) /\ forall s, In s ss -> le_shape s (maxshape ss).
Proof.
  induction ss as [|s r IH]; intros d Hd; [split; [congruence|intros s []]|].
  destruct r as [|s1 r].
  - cbn [maxshape]. split; [intros _; apply Hd; left; reflexivity|].
    intros s' [<-|[]]. apply le_shape_refl.
  - rewrite maxshape_cons2.
    destruct (IH d) as [IHl IHle]; [intros s' Hs'; apply Hd; right; exact Hs'|].
    specialize (IHl ltac:(discriminate)).
    assert (Hs : List.length s = d) by (apply Hd; left; reflexivity).
    split; [intros _; rewrite map2_max_length; lia|].
    intros s' [<-|Hin]; [apply le_map2_max_l; lia|]. apply le_map2_max_r; [apply IHle, Hin|lia].
Qed.

Lemma all_eq_true ss : all_eq ss = true -> forall a b, In a ss -> In b ss -> a = b.
Proof.
  induction ss as [|s r IH]; intros H a b Ha Hb; [destruct Ha|].
  cbn in H. apply andb_true_iff in H as [H1 H2]. rewrite forallb_forall in H1.
  destruct Ha as [<-|Ha], Hb as [<-|Hb]; auto.
  - apply shp_eqb_spec, H1, Hb.
  - symmetry. apply shp_eqb_spec, H1, Ha.
Qed.

Lemma tslice_tpad t m : wf (shp t) (dat t) -> le_shape (shp t) m -> tslice (shp t) (tpad m t) = t.
Proof.
  intros Hw Hl. destruct t as [d s x]. unfold tslice, tpad. cbn [dt shp dat] in *.
  rewrite pad_slice_roundtrip by assumption. reflexivity.
Qed.

(* ------------------------------------------------------------------ groups *)
Lemma map_nth_seq {X} (l : list X) (d : X) : map (fun j => nth j l d) (seq 0 (List.length l)) = l.
Proof.
  induction l as [|x l IH]; [reflexivity|]. cbn [List.length seq map nth]. f_equal.
  rewrite <- seq_shift, map_map. exact IH.
Qed.

Lemma nth_map_seq {Y} (f : nat -> Y) n i d : i < n -> nth i (map f (seq 0 n)) d = f i.
Proof.
  intros Hi. rewrite (nth_indep _ d (f 0)) by (rewrite map_length, seq_length; exact Hi).
  rewrite (map_nth f (seq 0 n) 0 i), seq_nth by exact Hi. reflexivity.
Qed.

Lemma seq_ne n : n > 0 -> seq 0 n <> [].
Proof. destruct n; [lia|discriminate]. Qed.

(* [root_ok g d r]: the global rank r handed to a rooted collective is held by group rank d and by
   nobody else *)
Definition root_ok (g : list nat) (d r : nat) : Prop :=
  d < List.length g /\ forall j, j < List.length g -> Nat.eqb (nth j g 0) r = Nat.eqb j d.

(* V_code: the rank named by [dst] must sit at its own index of the group (true for the world
   group); with fx_dst the name is translated to a global rank and any duplicate-free group is fine *)
Definition dst_ok (fx : fixes) (g : list nat) (dst : option nat) : Prop :=
  match dst with
  | None => True
  | Some d => d < List.length g /\
      (if fx_dst fx then NoDup g
       else forall j, j < List.length g -> Nat.eqb (nth j g 0) d = Nat.eqb j d)
  end.

Lemma nth_eqb_NoDup g j d : NoDup g -> j < List.length g -> d < List.length g ->
  Nat.eqb (nth j g 0) (nth d g 0) = Nat.eqb j d.
Proof.
  intros Hnd Hj Hd. destruct (Nat.eqb_spec j d) as [->|Hne]; [apply Nat.eqb_refl|].
  apply Nat.eqb_neq. intros E. apply Hne. exact (proj1 (NoDup_nth g 0) Hnd j d Hj Hd E).
Qed.

Lemma global_rank_nth g d : d < List.length g -> global_rank g d = nth d g 0.
Proof. intros H. unfold global_rank. apply nth_indep, H. Qed.

Lemma dst_ok_root fx g d : dst_ok fx g (Some d) -> root_ok g d (dst_root fx g d).
Proof.
  intros [Hd H]. split; [exact Hd|]. unfold dst_root. destruct (fx_dst fx); [|exact H].
  intros j Hj. rewrite global_rank_nth by exact Hd. apply nth_eqb_NoDup; assumption.
Qed.

Lemma root_ok_in_group g d r : root_ok g d r -> in_group g r = true.
Proof.
  intros [Hd Hj]. unfold in_group. apply existsb_exists. exists (nth d g 0). split; [apply nth_In, Hd|].
  specialize (Hj d Hd). rewrite Nat.eqb_refl in Hj. rewrite Nat.eqb_sym. exact Hj.
Qed.

Lemma dst_ok_world fx n dst : (match dst with Some d => d < n | None => True end) -> dst_ok fx (seq 0 n) dst.
Proof.
  destruct dst as [d|]; [|exact (fun _ => I)]. intros Hd. cbn [dst_ok]. rewrite seq_length. split; [exact Hd|].
  destruct (fx_dst fx); [apply seq_NoDup|]. intros j Hj. rewrite seq_nth by exact Hj. reflexivity.
Qed.

(* ------------------------------------------------------------------ responses on uniform families *)
Lemma all_ag_map {X} (t : X -> tensor) xs : all_ag (map (fun x => AllGather (t x)) xs) = Some (map t xs).
Proof. induction xs as [|x xs IH]; cbn; [reflexivity|]. rewrite IH. reflexivity. Qed.
Lemma all_g_map {X} d (h : X -> bool) (t : X -> tensor) xs :
  all_g d (map (fun x => Gather d (h x) (t x)) xs) = Some (map (fun x => (h x, t x)) xs).
Proof. induction xs as [|x xs IH]; cbn; [reflexivity|]. rewrite Nat.eqb_refl, IH. reflexivity. Qed.
Lemma all_ago_map {X} (v : X -> val) xs : all_ago (map (fun x => AllGatherObj (v x)) xs) = Some (map v xs).
Proof. induction xs as [|x xs IH]; cbn; [reflexivity|]. rewrite IH. reflexivity. Qed.
Lemma all_go_map {X} d (h : X -> bool) (v : X -> val) xs :
  all_go d (map (fun x => GatherObj d (h x) (v x)) xs) = Some (map (fun x => (h x, v x)) xs).
Proof. induction xs as [|x xs IH]; cbn; [reflexivity|]. rewrite Nat.eqb_refl, IH. reflexivity. Qed.
Lemma all_bco_map {X} s (v : X -> option meta) xs :
  all_bco s (map (fun x => BcastObj s (v x)) xs) = Some (map v xs).
Proof. induction xs as [|x xs IH]; cbn; [reflexivity|]. rewrite Nat.eqb_refl, IH. reflexivity. Qed.

Lemma len_check (g : list nat) {X} (xs : list X) {Y} (f : X -> Y) : List.length xs = List.length g ->
  negb (Nat.eqb (List.length g) (List.length (map f xs))) = false.
Proof. intros H. rewrite map_length, H, Nat.eqb_refl. reflexivity. Qed.

Lemma same_meta_all {X} (t : X -> tensor) (m : meta) x0 xs :
  meta_of (t x0) = m -> (forall x, In x xs -> meta_of (t x) = m) ->
  forallb (same_meta (t x0)) (map t xs) = true.
Proof.
  intros H0 H. apply forallb_forall. intros u Hu. apply in_map_iff in Hu as (x & <- & Hx).
  specialize (H x Hx). unfold meta_of in *. unfold same_meta.
  assert (dt (t x0) = dt (t x) /\ shp (t x0) = shp (t x)) as [-> ->] by (split; congruence).
  rewrite Z.eqb_refl, shp_eqb_refl. reflexivity.
Qed.

Lemma respond_allgather g {X} (t : X -> tensor) (m : meta) (xs : list X) :
  xs <> [] -> List.length xs = List.length g -> (forall x, In x xs -> meta_of (t x) = m) ->
  respond g (map (fun x => AllGather (t x)) xs) = Some (map (fun _ => RTens (map t xs)) xs).
Proof.
  intros Hne Hl Hm. unfold respond. rewrite (len_check g xs _ Hl).
  destruct xs as [|x0 xs]; [congruence|]. cbn [map].
  change (AllGather (t x0) :: map (fun x => AllGather (t x)) xs) with (map (fun x => AllGather (t x)) (x0 :: xs)).
  rewrite all_ag_map. rewrite (same_meta_all t m x0 (x0 :: xs)); [|apply Hm; left; reflexivity|exact Hm].
  rewrite map_map. reflexivity.
Qed.

Lemma respond_allgatherobj g {X} (v : X -> val) (xs : list X) :
  xs <> [] -> List.length xs = List.length g ->
  respond g (map (fun x => AllGatherObj (v x)) xs) = Some (map (fun _ => RObjs (map v xs)) xs).
Proof.
  intros Hne Hl. unfold respond. rewrite (len_check g xs _ Hl).
  destruct xs as [|x0 xs]; [congruence|]. cbn [map].
  change (AllGatherObj (v x0) :: map (fun x => AllGatherObj (v x)) xs) with (map (fun x => AllGatherObj (v x)) (x0 :: xs)).
  rewrite all_ago_map. rewrite map_map. reflexivity.
Qed.

(* the rooted part, for a root held by group rank d only *)
Lemma rooted_ok g d r (data : resp) {X} (cs : list X) : List.length g > 0 -> root_ok g d r ->
  rooted g r (map (fun i => Nat.eqb i d) (seq 0 (List.length g))) data cs
  = Some (map (fun i => if Nat.eqb i d then data else RNone) (seq 0 (List.length g))).
Proof.
  intros Hn Hok. pose proof (root_ok_in_group g d r Hok) as Hin. destruct Hok as [Hd Hj].
  unfold rooted. cbv zeta. set (n := List.length g) in *.
  assert (Eg : map (fun j => nth j g 0) (seq 0 n) = g) by apply map_nth_seq.
  assert (E : map2 (lerr g r) g (map (fun i => Nat.eqb i d) (seq 0 n)) = map (fun _ => false) (seq 0 n)).
  { rewrite <- Eg at 2. rewrite map2_map.
    apply map_ext_in. intros j Hjn. apply in_seq in Hjn. unfold lerr. rewrite Hin, Hj by lia.
    destruct (Nat.eqb j d); reflexivity. }
  assert (E2 : map (fun gj => if Nat.eqb gj r then data else RNone) g
               = map (fun i => if Nat.eqb i d then data else RNone) (seq 0 n)).
  { rewrite <- Eg at 1. rewrite map_map.
    apply map_ext_in. intros j Hjn. apply in_seq in Hjn. rewrite Hj by lia. reflexivity. }
  rewrite E, E2. destruct n as [|n']; [lia|]. cbn [seq map forallb existsb].
  replace (existsb (fun b : bool => b) (map (fun _ => false) (seq 1 n'))) with false.
  2:{ symmetry. generalize (seq 1 n'). induction l; cbn; auto. }
  reflexivity.
Qed.

Lemma respond_gather_gen g d {X} (h : X -> bool) (t : X -> tensor) (m : meta) (xs : list X) :
  xs <> [] -> List.length xs = List.length g -> (forall x, In x xs -> meta_of (t x) = m) ->
  respond g (map (fun x => Gather d (h x) (t x)) xs)
  = rooted g d (map h xs) (RTens (map t xs)) (map (fun x => Gather d (h x) (t x)) xs).
Proof.
  intros Hne Hl Hm. unfold respond. rewrite (len_check g xs _ Hl).
  destruct xs as [|x0 xs]; [congruence|]. cbn [map].
  change (Gather d (h x0) (t x0) :: map (fun x => Gather d (h x) (t x)) xs)
    with (map (fun x => Gather d (h x) (t x)) (x0 :: xs)).
  rewrite all_g_map. rewrite !map_map.
  rewrite (map_ext (fun x => snd (h x, t x)) t) by reflexivity.
  rewrite (map_ext (fun x => fst (h x, t x)) h) by reflexivity.
  rewrite (same_meta_all t m x0 (x0 :: xs)); [|apply Hm; left; reflexivity|exact Hm].
  reflexivity.
Qed.

Lemma respond_gatherobj_gen g d {X} (h : X -> bool) (v : X -> val) (xs : list X) :
  xs <> [] -> List.length xs = List.length g ->
  respond g (map (fun x => GatherObj d (h x) (v x)) xs)
  = rooted g d (map h xs) (RObjs (map v xs)) (map (fun x => GatherObj d (h x) (v x)) xs).
Proof.
  intros Hne Hl. unfold respond. rewrite (len_check g xs _ Hl).
  destruct xs as [|x0 xs]; [congruence|]. cbn [map].
  change (GatherObj d (h x0) (v x0) :: map (fun x => GatherObj d (h x) (v x)) xs)
    with (map (fun x => GatherObj d (h x) (v x)) (x0 :: xs)).
  rewrite all_go_map. rewrite !map_map.
  rewrite (map_ext (fun x => snd (h x, v x)) v) by reflexivity.
  rewrite (map_ext (fun x => fst (h x, v x)) h) by reflexivity.
  reflexivity.
Qed.

Lemma respond_gather g d r (t : nat -> tensor) (m : meta) : let n := List.length g in
  n > 0 -> root_ok g d r -> (forall i, i < n -> meta_of (t i) = m) ->
  respond g (map (fun i => Gather r (Nat.eqb i d) (t i)) (seq 0 n))
  = Some (map (fun i => if Nat.eqb i d then RTens (map t (seq 0 n)) else RNone) (seq 0 n)).
Proof.
  intros n Hn Hok Hm.
  rewrite (respond_gather_gen g r (fun i => Nat.eqb i d) t m);
    [apply rooted_ok; assumption|apply seq_ne, Hn|apply seq_length|].
  intros x Hx. apply in_seq in Hx. apply Hm. lia.
Qed.

Lemma respond_gatherobj g d r (v : nat -> val) : let n := List.length g in
  n > 0 -> root_ok g d r ->
  respond g (map (fun i => GatherObj r (Nat.eqb i d) (v i)) (seq 0 n))
  = Some (map (fun i => if Nat.eqb i d then RObjs (map v (seq 0 n)) else RNone) (seq 0 n)).
Proof.
  intros n Hn Hok.
  rewrite (respond_gatherobj_gen g r (fun i => Nat.eqb i d) v);
    [apply rooted_ok; assumption|apply seq_ne, Hn|apply seq_length].
Qed.

(* ------------------------------------------------------------------ bindr *)
Lemma run_all_bindr g {A B X} (p : X -> P A) (f : X -> A -> P B) (ra : X -> A) (xs : list X) :
  run_all (respond g) (map p xs) = Some (map (fun x => Ok (ra x)) xs) ->
  run_all (respond g) (map (fun x => bindr (p x) (f x)) xs) = run_all (respond g) (map (fun x => f x (ra x)) xs).
Proof.
  intros H. unfold bindr.
  exact (run_all_bind (respond g) p
             (fun x r => match r with Ok a => f x a | Exc e => Ret (Exc e) end) (fun x => Ok (ra x)) xs H).
Qed.

Lemma run_all_ext g {A X} (p q : X -> P A) (xs : list X) :
  (forall x, In x xs -> p x = q x) -> run_all (respond g) (map p xs) = run_all (respond g) (map q xs).
Proof. intros H. f_equal. apply map_ext_in, H. Qed.

Lemma run_all_ret_ext g {A X} (p : X -> P A) (f : X -> res A) (xs : list X) :
  (forall x, In x xs -> p x = Ret (f x)) -> run_all (respond g) (map p xs) = Some (map f xs).
Proof. intros H. rewrite (run_all_ext g p (fun x => Ret (f x)) xs H). apply run_all_ret. Qed.

(* continuation-passing forms, to be used with [refine] (which solves the higher-order
   unification problems that [rewrite] cannot) *)
Lemma stepK g {A X} (c : X -> call) (rf : X -> resp) (p : X -> P A) (xs : list X) out :
  xs <> [] -> (forall x, In x xs -> head (p x) = Some (c x)) ->
  respond g (map c xs) = Some (map rf xs) ->
  run_all (respond g) (map (fun x => cont (p x) (rf x)) xs) = out ->
  run_all (respond g) (map p xs) = out.
Proof. intros Hne Hh Hr <-. apply (run_all_step (respond g) p c rf xs Hne Hh Hr). Qed.

Lemma bindrK g {A B X} (p : X -> P A) (ra : X -> A) (f : X -> A -> P B) (xs : list X) out :
  run_all (respond g) (map p xs) = Some (map (fun x => Ok (ra x)) xs) ->
  run_all (respond g) (map (fun x => f x (ra x)) xs) = out ->
  run_all (respond g) (map (fun x => bindr (p x) (f x)) xs) = out.
Proof. intros H <-. apply run_all_bindr, H. Qed.

Lemma extK g {A X} (q p : X -> P A) (xs : list X) out :
  (forall x, In x xs -> p x = q x) ->
  run_all (respond g) (map q xs) = out -> run_all (respond g) (map p xs) = out.
Proof. intros H <-. apply run_all_ext, H. Qed.

Ltac step c rf := refine (stepK _ c rf _ _ _ _ _ _ _).
Ltac bindr_with p ra := refine (bindrK _ p ra _ _ _ _ _).

(* ------------------------------------------------------------------ send_tensors *)
Lemma simple_send_run fx g dst (t : nat -> tensor) (m : meta) : let n := List.length g in
  n > 0 -> dst_ok fx g dst -> (forall i, i < n -> meta_of (t i) = m) ->
  run_all (respond g) (map (fun i => simple_send fx g dst i (t i)) (seq 0 n))
  = Some (map (fun i => Ok (if receives dst i then Some (map t (seq 0 n)) else None)) (seq 0 n)).
Proof.
  intros n Hn Hok Hm. destruct dst as [d|]; unfold simple_send.
  - step (fun i => Gather (dst_root fx g d) (Nat.eqb i d) (t i)) (fun i => if Nat.eqb i d then RTens (map t (seq 0 n)) else RNone);
      [apply seq_ne, Hn|intros; reflexivity|apply (respond_gather g d _ t m Hn (dst_ok_root fx g d Hok) Hm)|].
    apply run_all_ret_ext. intros i _. cbn [receives cont]. destruct (Nat.eqb i d); reflexivity.
  - step (fun i => AllGather (t i)) (fun _ : nat => RTens (map t (seq 0 n)));
      [apply seq_ne, Hn|intros; reflexivity|apply (respond_allgather g t m); [apply seq_ne, Hn|apply seq_length|]|].
    + intros x Hx. apply in_seq in Hx. apply Hm. lia.
    + apply run_all_ret_ext. intros i _. reflexivity.
Qed.

Lemma maxl_ge : forall l x, In x l -> x <= maxl l.
Proof.
  induction l as [|y l IH]; intros x Hx; [destruct Hx|]. unfold maxl in *. cbn [fold_right].
  destruct Hx as [<-|H]; [lia|]. specialize (IH x H). lia.
Qed.

Definition tens_ok (d : nat) (z : Z) (t : tensor) : Prop := wf (shp t) (dat t) /\ ndim t = d /\ dt t = z.

(* the hypothesis on tensors handed to send_tensors: with fx_d10 no agreement on ndim is needed, with
   fx_d10 and fx_dt (dtype negotiation) no agreement on the dtype either *)
Definition tens_okx (fx : fixes) (d : nat) (z : Z) (t : tensor) : Prop :=
  wf (shp t) (dat t) /\ (dt t = z \/ fx_d10 fx && fx_dt fx = true) /\ (fx_d10 fx = true \/ ndim t = d).
Lemma tens_ok_x fx d z t : tens_ok d z t -> tens_okx fx d z t.
Proof. intros (H1 & H2 & H3). split; [exact H1|]. split; [left; exact H3|right; exact H2]. Qed.
Lemma tens_okx_ok fx d z t : fx_d10 fx = false -> tens_okx fx d z t -> tens_ok d z t.
Proof.
  intros E (H1 & [H2|H2] & [H3|H3]); try congruence; [|rewrite E in H2; discriminate H2].
  split; [exact H1|]. split; assumption.
Qed.

(* reshape to leading 1-extents and back *)
Lemma unwrap_wrap k x : unwrap k (wrap k x) = x.
Proof. induction k as [|k IH]; [reflexivity|]. cbn [wrap unwrap]. exact IH. Qed.
Lemma skipn_repeat_app {X} (a : X) k s : skipn k (repeat a k ++ s) = s.
Proof. induction k as [|k IH]; [reflexivity|]. cbn [repeat app skipn]. exact IH. Qed.
Lemma unlift_lift k t : unlift k (lift k t) = t.
Proof.
  destruct t as [z s x]. unfold unlift, lift. cbn [dt shp dat]. rewrite skipn_repeat_app, unwrap_wrap. reflexivity.
Qed.
Lemma wf_wrap k s x : wf s x -> wf (repeat 1 k ++ s) (wrap k x).
Proof.
  intros H. induction k as [|k IH]; [exact H|]. cbn [repeat app wrap]. apply wf_cons. split; [reflexivity|].
  constructor; [exact IH|constructor].
Qed.
Lemma ndim_lift k t : ndim (lift k t) = k + ndim t.
Proof. unfold ndim, lift. cbn [shp]. rewrite app_length, repeat_length. reflexivity. Qed.
Lemma tens_ok_lift mx z t : wf (shp t) (dat t) -> dt t = z -> ndim t <= mx -> tens_ok mx z (lift (mx - ndim t) t).
Proof.
  intros Hw Hz Hle. split; [apply wf_wrap, Hw|]. split; [rewrite ndim_lift; lia|exact Hz].
Qed.

Lemma of_shape_meta t d : ndim t = d -> meta_of (of_shape (shp t)) = (I64, [d]).
Proof. intros <-. reflexivity. Qed.

Lemma send_uneven_run fx g dst (ts : nat -> tensor) d z : let n := List.length g in
  n > 0 -> dst_ok fx g dst -> (forall i, i < n -> tens_ok d z (ts i)) ->
  run_all (respond g) (map (fun i => send_uneven fx g dst i (ts i)) (seq 0 n))
  = Some (map (fun i => Ok (if receives dst i then Some (map ts (seq 0 n)) else None)) (seq 0 n)).
Proof.
  intros n Hn Hok Ht. unfold send_uneven.
  assert (Hne : seq 0 n <> []) by apply seq_ne, Hn.
  step (fun i => AllGather (of_shape (shp (ts i))))
       (fun _ : nat => RTens (map (fun i => of_shape (shp (ts i))) (seq 0 n)));
    [exact Hne|intros; reflexivity| |].
  { apply (respond_allgather g (fun i => of_shape (shp (ts i))) (I64, [d])); [exact Hne|apply seq_length|].
    intros x Hx. apply in_seq in Hx. apply of_shape_meta. apply Ht. lia. }
  cbv beta iota zeta delta [cont]. rewrite map_map.
  rewrite (map_ext (fun x => to_shape (of_shape (shp (ts x)))) (fun x => shp (ts x))) by (intros; apply to_of_shape).
  set (sizes := map (fun x => shp (ts x)) (seq 0 n)).
  destruct (all_eq sizes) eqn:Heq.
  - apply (simple_send_run fx g dst ts (z, shp (ts 0)) Hn Hok). intros i Hi. unfold meta_of. f_equal.
    + apply Ht, Hi.
    + apply (all_eq_true _ Heq); unfold sizes.
      * apply (in_map (fun x => shp (ts x))), in_seq. lia.
      * apply (in_map (fun x => shp (ts x)) (seq 0 n) 0), in_seq. lia.
  - set (m := maxshape sizes).
    assert (Hle : forall i, i < n -> le_shape (shp (ts i)) m).
    { intros i Hi. apply (maxshape_ge sizes d).
      - intros s Hs. apply in_map_iff in Hs as (x & <- & Hx). apply in_seq in Hx. apply (Ht x). lia.
      - apply (in_map (fun x => shp (ts x))), in_seq. lia. }
    bindr_with (fun i => simple_send fx g dst i (tpad m (ts i)))
               (fun i => if receives dst i then Some (map (fun i => tpad m (ts i)) (seq 0 n)) else None).
    { apply (simple_send_run fx g dst (fun i => tpad m (ts i)) (z, m) Hn Hok).
      intros i Hi. unfold meta_of, tpad. cbn [dt shp]. f_equal. apply Ht, Hi. }
    apply run_all_ret_ext. intros i _. destruct (receives dst i); [|reflexivity]. cbn [option_map].
    do 3 f_equal. unfold sizes. rewrite map2_map. apply map_ext_in. intros j Hj. apply in_seq in Hj.
    apply tslice_tpad; [apply Ht; lia|apply Hle; lia].
Qed.

Lemma send_tensors_code fx g dst (ts : nat -> tensor) d z : let n := List.length g in
  fx_d10 fx = false ->
  n > 0 -> dst_ok fx g dst -> (forall i, i < n -> tens_ok d z (ts i)) ->
  run_all (respond g) (map (fun i => send_tensors fx g dst i (ts i)) (seq 0 n))
  = Some (map (fun i => Ok (if receives dst i then Some (map ts (seq 0 n)) else None)) (seq 0 n)).
Proof.
  intros n E10 Hn Hok Ht. destruct d as [|d'].
  - refine (extK g (fun i => simple_send fx g dst i (ts i)) _ _ _ _ _).
    + intros i Hi. apply in_seq in Hi. destruct (Ht i ltac:(lia)) as (_ & Hd & _). unfold send_tensors, ndim in *.
      rewrite E10. cbn [andb]. destruct (shp (ts i)); [reflexivity|discriminate].
    + apply (simple_send_run fx g dst ts (z, []) Hn Hok). intros i Hi. destruct (Ht i Hi) as (_ & Hd & Hz).
      unfold meta_of. f_equal; [exact Hz|]. unfold ndim in Hd. destruct (shp (ts i)); [reflexivity|discriminate].
  - refine (extK g (fun i => send_uneven fx g dst i (ts i)) _ _ _ _ _).
    + intros i Hi. apply in_seq in Hi. destruct (Ht i ltac:(lia)) as (_ & Hd & _). unfold send_tensors, ndim in *.
      rewrite E10. cbn [andb]. destruct (shp (ts i)); [discriminate|reflexivity].
    + apply (send_uneven_run fx g dst ts (S d') z Hn Hok Ht).
Qed.

(* the part after the negotiation: any mix of ranks is delivered with its own shape *)
Lemma send_nd_run fx g dst (ts : nat -> tensor) z ns : let n := List.length g in
  n > 0 -> dst_ok fx g dst -> (forall i, i < n -> wf (shp (ts i)) (dat (ts i)) /\ dt (ts i) = z) ->
  ns = map (fun x => ndim (ts x)) (seq 0 n) ->
  run_all (respond g) (map (fun i => send_nd fx g dst i ns (ts i)) (seq 0 n))
  = Some (map (fun i => Ok (if receives dst i then Some (map ts (seq 0 n)) else None)) (seq 0 n)).
Proof.
  intros n Hn Hok Ht ->. unfold send_nd. cbv zeta.
  set (ns := map (fun x => ndim (ts x)) (seq 0 n)). set (mx := maxl ns).
  assert (Hle : forall i, i < n -> ndim (ts i) <= mx).
  { intros i Hi. apply maxl_ge. unfold ns. apply (in_map (fun x => ndim (ts x))), in_seq. lia. }
  destruct (Nat.eqb_spec mx 0) as [E0|Hpos].
  - apply (simple_send_run fx g dst ts (z, []) Hn Hok). intros i Hi. unfold meta_of. f_equal; [apply Ht, Hi|].
    specialize (Hle i Hi). unfold ndim in Hle. destruct (shp (ts i)); [reflexivity|cbn in Hle; lia].
  - bindr_with (fun i => send_uneven fx g dst i (lift (mx - ndim (ts i)) (ts i)))
               (fun i => if receives dst i
                         then Some (map (fun i => lift (mx - ndim (ts i)) (ts i)) (seq 0 n)) else None).
    { apply (send_uneven_run fx g dst (fun i => lift (mx - ndim (ts i)) (ts i)) mx z Hn Hok).
      intros i Hi. apply tens_ok_lift; [apply Ht, Hi|apply Ht, Hi|apply Hle, Hi]. }
    apply run_all_ret_ext. intros i _. destruct (receives dst i); [|reflexivity]. cbn [option_map].
    do 3 f_equal. unfold ns. rewrite map2_map. apply map_ext. intros j. apply unlift_lift.
Qed.

(* fx_d10: the ndims are negotiated first; any mix of ranks is delivered with its own shape *)
Lemma send_tensors_d10 fx g dst (ts : nat -> tensor) z : let n := List.length g in
  fx_d10 fx = true -> fx_dt fx = false ->
  n > 0 -> dst_ok fx g dst -> (forall i, i < n -> wf (shp (ts i)) (dat (ts i)) /\ dt (ts i) = z) ->
  run_all (respond g) (map (fun i => send_tensors fx g dst i (ts i)) (seq 0 n))
  = Some (map (fun i => Ok (if receives dst i then Some (map ts (seq 0 n)) else None)) (seq 0 n)).
Proof.
  intros n E10 Edt Hn Hok Ht. assert (Hne : seq 0 n <> []) by apply seq_ne, Hn.
  unfold send_tensors. rewrite E10, Edt. cbn [andb].
  step (fun i => AllGather (of_shape [ndim (ts i)]))
       (fun _ : nat => RTens (map (fun i => of_shape [ndim (ts i)]) (seq 0 n)));
    [exact Hne|intros; reflexivity| |].
  { apply (respond_allgather g (fun i => of_shape [ndim (ts i)]) (I64, [1])); [exact Hne|apply seq_length|].
    intros; reflexivity. }
  cbv beta iota zeta delta [cont]. rewrite map_map.
  rewrite (map_ext (fun x => hd 0 (to_shape (of_shape [ndim (ts x)]))) (fun x => ndim (ts x)))
    by (intros; rewrite to_of_shape; reflexivity).
  exact (send_nd_run fx g dst ts z _ Hn Hok Ht eq_refl).
Qed.

(* fx_dt: ndims AND dtypes are negotiated first; any mix of ranks and dtypes is delivered, every tensor with its
   own shape and its own dtype *)
Lemma all_same_map (f : nat -> Z) n : n > 0 -> all_same (map f (seq 0 n)) = true -> forall i, i < n -> f i = f 0.
Proof.
  intros Hn H i Hi. destruct n as [|n]; [lia|]. cbn [seq map all_same] in H.
  destruct i as [|i]; [reflexivity|]. rewrite forallb_forall in H.
  symmetry. apply Z.eqb_eq, H. apply (in_map f), in_seq. lia.
Qed.
Lemma cast_cast d t : cast (dt t) (cast d t) = t.
Proof. destruct t; reflexivity. Qed.
Lemma meta_of_ndim_dt t : meta_nd (of_ndim_dt t) = ndim t /\ meta_dt (of_ndim_dt t) = dt t.
Proof. unfold meta_nd, meta_dt, of_ndim_dt, ndim. cbn [dat]. rewrite Nat2Z.id. split; reflexivity. Qed.

Lemma send_tensors_dtfix fx g dst (ts : nat -> tensor) : let n := List.length g in
  fx_d10 fx = true -> fx_dt fx = true ->
  n > 0 -> dst_ok fx g dst -> (forall i, i < n -> wf (shp (ts i)) (dat (ts i))) ->
  run_all (respond g) (map (fun i => send_tensors fx g dst i (ts i)) (seq 0 n))
  = Some (map (fun i => Ok (if receives dst i then Some (map ts (seq 0 n)) else None)) (seq 0 n)).
Proof.
  intros n E10 Edt Hn Hok Ht. assert (Hne : seq 0 n <> []) by apply seq_ne, Hn.
  unfold send_tensors. rewrite E10, Edt. cbn [andb]. unfold send_tensors_dt.
  step (fun i => AllGather (of_ndim_dt (ts i)))
       (fun _ : nat => RTens (map (fun i => of_ndim_dt (ts i)) (seq 0 n)));
    [exact Hne|intros; reflexivity| |].
  { apply (respond_allgather g (fun i => of_ndim_dt (ts i)) (3%Z, [2])); [exact Hne|apply seq_length|].
    intros; reflexivity. }
  cbv beta iota zeta delta [cont]. rewrite !map_map.
  rewrite (map_ext (fun x => meta_nd (of_ndim_dt (ts x))) (fun x => ndim (ts x))) by (intros; apply meta_of_ndim_dt).
  rewrite (map_ext (fun x => meta_dt (of_ndim_dt (ts x))) (fun x => dt (ts x))) by (intros; apply meta_of_ndim_dt).
  set (ds := map (fun x => dt (ts x)) (seq 0 n)).
  destruct (all_same ds) eqn:Hsame.
  - apply (send_nd_run fx g dst ts (dt (ts 0)) _ Hn Hok); [|reflexivity].
    intros i Hi. split; [apply Ht, Hi|]. exact (all_same_map (fun x => dt (ts x)) n Hn Hsame i Hi).
  - bindr_with (fun i => send_nd fx g dst i (map (fun x => ndim (ts x)) (seq 0 n)) (cast (transport ds) (ts i)))
               (fun i => if receives dst i then Some (map (fun i => cast (transport ds) (ts i)) (seq 0 n)) else None).
    { apply (send_nd_run fx g dst (fun i => cast (transport ds) (ts i)) (transport ds) _ Hn Hok); [|reflexivity].
      intros i Hi. split; [apply Ht, Hi|reflexivity]. }
    apply run_all_ret_ext. intros i _. destruct (receives dst i); [|reflexivity]. cbn [option_map].
    do 3 f_equal. unfold ds. rewrite map2_map. apply map_ext. intros j. apply cast_cast.
Qed.

Theorem send_tensors_lossless fx g dst (ts : nat -> tensor) d z : let n := List.length g in
  n > 0 -> dst_ok fx g dst -> (forall i, i < n -> tens_okx fx d z (ts i)) ->
  run_all (respond g) (map (fun i => send_tensors fx g dst i (ts i)) (seq 0 n))
  = Some (map (fun i => Ok (if receives dst i then Some (map ts (seq 0 n)) else None)) (seq 0 n)).
Proof.
  intros n Hn Hok Ht. destruct (fx_d10 fx) eqn:E10.
  - destruct (fx_dt fx) eqn:Edt.
    + apply (send_tensors_dtfix fx g dst ts E10 Edt Hn Hok). intros i Hi. apply (Ht i Hi).
    + apply (send_tensors_d10 fx g dst ts z E10 Edt Hn Hok). intros i Hi. destruct (Ht i Hi) as (H1 & [H2|H2] & _).
      * split; assumption.
      * rewrite E10, Edt in H2. discriminate H2.
  - apply (send_tensors_code fx g dst ts d z E10 Hn Hok). intros i Hi. apply (tens_okx_ok fx), Ht, Hi. exact E10.
Qed.

Corollary dst_only_receives fx g d (ts : nat -> tensor) dd z : let n := List.length g in
  n > 0 -> dst_ok fx g (Some d) -> (forall i, i < n -> tens_okx fx dd z (ts i)) ->
  exists out, run_all (respond g) (map (fun i => send_tensors fx g (Some d) i (ts i)) (seq 0 n)) = Some out /\
    List.length out = n /\
    nth d out (Exc "") = Ok (Some (map ts (seq 0 n))) /\
    forall i, i < n -> i <> d -> nth i out (Exc "") = Ok None.
Proof.
  intros n Hn Hok Ht. eexists. split; [apply (send_tensors_lossless fx g (Some d) ts dd z Hn Hok Ht)|].
  fold n. split; [rewrite map_length; apply seq_length|].
  split.
  - destruct Hok as [Hd _]. rewrite nth_map_seq by exact Hd. cbn [receives]. rewrite Nat.eqb_refl. reflexivity.
  - intros i Hi Hne. rewrite nth_map_seq by exact Hi. apply Nat.eqb_neq in Hne. cbn [receives]. rewrite Hne. reflexivity.
Qed.

(* ------------------------------------------------------------------ gathered_states slots *)
Lemma pad_slots_seq Wg (f : nat -> gs) n :
  pad_slots Wg (map f (seq 0 n)) = map f (seq 0 n) ++ repeat GEmpty (Wg - n).
Proof. unfold pad_slots. rewrite map_length, seq_length. reflexivity. Qed.

Lemma untouched_split Wg n : n <= Wg ->
  untouched Wg = map (fun _ => GEmpty) (seq 0 n) ++ repeat GEmpty (Wg - n).
Proof.
  intros H. unfold untouched. replace Wg with (n + (Wg - n)) at 1 by lia. rewrite repeat_app. f_equal.
  generalize 0. induction n as [|n IH]; intros a; [reflexivity|]. cbn [repeat seq map]. f_equal. apply IH. lia.
Qed.

(* ------------------------------------------------------------------ sync_obj *)
Theorem obj_sync_lossless fx g dst Wg (vs : nat -> val) : let n := List.length g in
  n > 0 -> dst_ok fx g dst ->
  run_all (respond g) (map (fun i => sync_obj fx g dst i Wg (vs i)) (seq 0 n))
  = Some (map (fun i => Ok (if receives dst i then pad_slots Wg (map (fun j => GO (vs j)) (seq 0 n))
                            else untouched Wg)) (seq 0 n)).
Proof.
  intros n Hn Hok. destruct dst as [d|]; unfold sync_obj.
  - step (fun i => GatherObj (dst_root fx g d) (Nat.eqb i d) (vs i)) (fun i => if Nat.eqb i d then RObjs (map vs (seq 0 n)) else RNone);
      [apply seq_ne, Hn|intros; reflexivity|apply (respond_gatherobj g d _ vs Hn (dst_ok_root fx g d Hok))|].
    apply run_all_ret_ext. intros i _. cbn [receives cont]. destruct (Nat.eqb i d); [|reflexivity].
    rewrite map_map. reflexivity.
  - step (fun i => AllGatherObj (vs i)) (fun _ : nat => RObjs (map vs (seq 0 n)));
      [apply seq_ne, Hn|intros; reflexivity|apply (respond_allgatherobj g vs); [apply seq_ne, Hn|apply seq_length]|].
    apply run_all_ret_ext. intros i _. cbn [receives cont]. rewrite map_map. reflexivity.
Qed.

(* ------------------------------------------------------------------ sync_list *)
Definition accR (Wg n : nat) (xss : nat -> list tensor) (k : nat) : list gs :=
  map (fun j => match k with 0 => GEmpty | S _ => GL (firstn k (xss j)) end) (seq 0 n) ++ repeat GEmpty (Wg - n).

Lemma collect_map {X} k (a : X -> gs) (t : X -> tensor) (len : X -> nat) (xs : list X) rest :
  collect k (map a xs ++ rest) (map t xs) (map len xs)
  = map (fun x => if Nat.ltb k (len x) then gapp (if Nat.eqb (glen (a x)) 0 then GL [] else a x) (t x)
                  else (if Nat.eqb (glen (a x)) 0 then GL [] else a x)) xs ++ rest.
Proof.
  induction xs as [|x xs IH]; cbn [map app collect]; [destruct rest; reflexivity|]. f_equal. exact IH.
Qed.

Lemma firstn_S_nth {X} : forall (xs : list X) k d, k < List.length xs -> firstn k xs ++ [nth k xs d] = firstn (S k) xs.
Proof.
  induction xs as [|x xs IH]; intros k d Hk; cbn in Hk; [lia|].
  destruct k as [|k]; [reflexivity|]. cbn [firstn nth app]. f_equal. apply IH. lia.
Qed.

Lemma collect_elem k (xs : list tensor) d :
  (if Nat.ltb k (List.length xs)
   then gapp (if Nat.eqb (glen (match k with 0 => GEmpty | S _ => GL (firstn k xs) end)) 0 then GL []
              else match k with 0 => GEmpty | S _ => GL (firstn k xs) end) (nth k xs d)
   else (if Nat.eqb (glen (match k with 0 => GEmpty | S _ => GL (firstn k xs) end)) 0 then GL []
         else match k with 0 => GEmpty | S _ => GL (firstn k xs) end))
  = GL (firstn (S k) xs).
Proof.
  assert (E : (if Nat.eqb (glen (match k with 0 => GEmpty | S _ => GL (firstn k xs) end)) 0 then GL []
               else match k with 0 => GEmpty | S _ => GL (firstn k xs) end) = GL (firstn k xs)).
  { destruct k as [|k]; [reflexivity|]. cbn [glen].
    destruct (Nat.eqb_spec (List.length (firstn (S k) xs)) 0) as [H0|H0]; [|reflexivity].
    apply length_zero_iff_nil in H0. rewrite H0. reflexivity. }
  rewrite E. destruct (Nat.ltb_spec k (List.length xs)) as [Hlt|Hge].
  - cbn [gapp]. rewrite firstn_S_nth by exact Hlt. reflexivity.
  - rewrite !firstn_all2 by lia. reflexivity.
Qed.

Lemma collect_accR Wg n xss (ms : nat -> meta) k :
  collect k (accR Wg n xss k) (map (fun j => nth k (xss j) (dummy (ms j))) (seq 0 n))
          (map (fun j => List.length (xss j)) (seq 0 n))
  = accR Wg n xss (S k).
Proof.
  unfold accR. rewrite collect_map. f_equal. apply map_ext. intros j. apply collect_elem.
Qed.

Lemma tens_ok_dummy d z m : List.length (snd m) = d -> fst m = z -> tens_ok d z (dummy m).
Proof. intros H1 H2. unfold tens_ok, dummy, ndim. cbn [shp dat dt]. split; [apply wf_zeros|]. split; assumption. Qed.

Lemma list_loop_S fx g dst i m lens xs k f acc :
  list_loop fx g dst i m lens xs k (S f) acc
  = bindr (send_tensors fx g dst i (nth k xs (dummy m))) (fun o =>
      list_loop fx g dst i m lens xs (S k) f (match o with Some ts => collect k acc ts lens | None => acc end)).
Proof. reflexivity. Qed.

Lemma list_loop_run fx g dst Wg (xss : nat -> list tensor) (ms : nat -> meta) d z : let n := List.length g in
  n > 0 -> dst_ok fx g dst ->
  (forall i, i < n -> forall t, In t (xss i) -> tens_ok d z t) ->
  (forall i, i < n -> List.length (snd (ms i)) = d /\ fst (ms i) = z) ->
  forall fuel k,
  run_all (respond g)
    (map (fun i => list_loop fx g dst i (ms i) (map (fun j => List.length (xss j)) (seq 0 n)) (xss i) k fuel
                     (if receives dst i then accR Wg n xss k else untouched Wg)) (seq 0 n))
  = Some (map (fun i => Ok (if receives dst i then accR Wg n xss (k + fuel) else untouched Wg)) (seq 0 n)).
Proof.
  intros n Hn Hok Ht Hms. induction fuel as [|fuel IH]; intros k.
  - apply run_all_ret_ext. intros i _. rewrite Nat.add_0_r. reflexivity.
  - refine (extK g _ _ _ _ (fun i _ => list_loop_S _ _ _ _ _ _ _ _ _ _) _).
    bindr_with (fun i => send_tensors fx g dst i (nth k (xss i) (dummy (ms i))))
               (fun i => if receives dst i then Some (map (fun j => nth k (xss j) (dummy (ms j))) (seq 0 n)) else None).
    { apply (send_tensors_lossless fx g dst (fun i => nth k (xss i) (dummy (ms i))) d z Hn Hok).
      intros i Hi. destruct (Nat.lt_ge_cases k (List.length (xss i))) as [Hlt|Hge].
      - apply tens_ok_x, (Ht i Hi), nth_In, Hlt.
      - rewrite nth_overflow by lia. apply tens_ok_x, tens_ok_dummy; apply (Hms i Hi). }
    refine (extK g (fun i => list_loop fx g dst i (ms i) (map (fun j => List.length (xss j)) (seq 0 n)) (xss i) (S k) fuel
                     (if receives dst i then accR Wg n xss (S k) else untouched Wg)) _ _ _ _ _).
    + intros i _. destruct (receives dst i); [|reflexivity]. f_equal. apply collect_accR.
    + rewrite IH. rewrite Nat.add_succ_r. reflexivity.
Qed.

(* ---- _sync_dtype_and_shape on the world group ---- *)
Lemma maxZ_ge : forall l x, In x l -> (x <= maxZ l)%Z.
Proof.
  induction l as [|y l IH]; intros x Hx; [destruct Hx|]. unfold maxZ in *. cbn [fold_right].
  destruct Hx as [<-|H]; [lia|]. specialize (IH x H). lia.
Qed.
Lemma maxZ_in : forall l, maxZ l = (-1)%Z \/ In (maxZ l) l.
Proof.
  induction l as [|y l IH]; [left; reflexivity|]. unfold maxZ in *. cbn [fold_right].
  destruct (Z.max_spec y (fold_right Z.max (-1)%Z l)) as [[_ E]|[_ E]]; rewrite E.
  - destruct IH as [IH|IH]; [left; exact IH|right; right; exact IH].
  - right; left; reflexivity.
Qed.

Lemma index_of_seq : forall n a s, a <= s < a + n -> index_of s (seq a n) = s - a.
Proof.
  induction n as [|n IH]; intros a s H; [lia|]. cbn [seq index_of].
  destruct (Nat.eqb_spec a s) as [->|Hne]; [lia|]. rewrite IH by lia. lia.
Qed.
Lemma in_group_seq n s : s < n -> in_group (seq 0 n) s = true.
Proof. intros H. unfold in_group. apply existsb_exists. exists s. split; [apply in_seq; lia|apply Nat.eqb_refl]. Qed.
Lemma index_of_nth_NoDup : forall g r, NoDup g -> r < List.length g -> index_of (nth r g 0) g = r.
Proof.
  induction g as [|x g IH]; intros r Hnd Hr; cbn in Hr; [lia|]. inversion Hnd as [|? ? Hnin Hnd']; subst.
  destruct r as [|r]; cbn [nth index_of]; [rewrite Nat.eqb_refl; reflexivity|].
  destruct (Nat.eqb_spec x (nth r g 0)) as [E|_].
  - exfalso. apply Hnin. rewrite E. apply nth_In. lia.
  - f_equal. apply IH; [exact Hnd'|lia].
Qed.

Lemma respond_bcast_gen g s {X} (v : X -> option meta) (xs : list X) :
  xs <> [] -> List.length xs = List.length g ->
  respond g (map (fun x => BcastObj s (v x)) xs)
  = if in_group g s then Some (map (fun _ => RMeta (nth (index_of s g) (map v xs) None)) xs)
    else Some (map (fun _ => RErr "ValueError") xs).
Proof.
  intros Hne Hl. unfold respond. rewrite (len_check g xs _ Hl).
  destruct xs as [|x0 xs]; [congruence|]. cbn [map].
  change (BcastObj s (v x0) :: map (fun x => BcastObj s (v x)) xs) with (map (fun x => BcastObj s (v x)) (x0 :: xs)).
  rewrite all_bco_map. rewrite !map_map. reflexivity.
Qed.

(* the broadcast source: V_code hands the GROUP rank to broadcast_object_list, which is right only
   on the world group; with fx_d9 it is translated and any duplicate-free group is fine *)
Definition src_ok (fx : fixes) (g : list nat) : Prop :=
  if fx_d9 fx then NoDup g else g = seq 0 (List.length g).

Lemma src_ok_root fx g r : src_ok fx g -> r < List.length g ->
  in_group g (src_root fx g r) = true /\ index_of (src_root fx g r) g = r.
Proof.
  unfold src_ok, src_root. destruct (fx_d9 fx); intros H Hr.
  - rewrite global_rank_nth by exact Hr. split; [|apply index_of_nth_NoDup; assumption].
    unfold in_group. apply existsb_exists. exists (nth r g 0). split; [apply nth_In, Hr|apply Nat.eqb_refl].
  - remember (List.length g) as n eqn:En. subst g. split; [apply in_group_seq, Hr|].
    rewrite index_of_seq by lia. lia.
Qed.

Lemma respond_bcast g s r (v : nat -> option meta) : let n := List.length g in
  r < n -> in_group g s = true -> index_of s g = r ->
  respond g (map (fun i => BcastObj s (v i)) (seq 0 n)) = Some (map (fun _ => RMeta (v r)) (seq 0 n)).
Proof.
  intros n Hr Hin Hidx. rewrite respond_bcast_gen; [|apply seq_ne; lia|apply seq_length].
  rewrite Hin, Hidx. rewrite nth_map_seq by exact Hr. reflexivity.
Qed.

Lemma maxZ_all_m1 l : (forall x, In x l -> x = (-1)%Z) -> maxZ l = (-1)%Z.
Proof.
  induction l as [|y l IH]; intros H; [reflexivity|]. unfold maxZ in *. cbn [fold_right].
  rewrite IH by (intros x Hx; apply H; right; exact Hx). rewrite (H y (or_introl eq_refl)). reflexivity.
Qed.

Lemma sync_dtype_shape_none fx g (xss : nat -> list tensor) : let n := List.length g in
  n > 0 -> (forall i, i < n -> xss i = []) ->
  run_all (respond g) (map (fun i => sync_dtype_shape fx g i (hd_error (xss i))) (seq 0 n))
  = Some (map (fun _ => Ok None) (seq 0 n)).
Proof.
  intros n Hn Hall.
  set (f := fun i => match hd_error (xss i) with Some _ => Z.of_nat i | None => (-1)%Z end).
  assert (Hne : seq 0 n <> []) by apply seq_ne, Hn.
  assert (Emax : maxZ (map f (seq 0 n)) = (-1)%Z).
  { apply maxZ_all_m1. intros x Hx. apply in_map_iff in Hx as (i & <- & Hi). apply in_seq in Hi.
    unfold f. rewrite Hall by lia. reflexivity. }
  unfold sync_dtype_shape.
  step (fun i => AllGatherObj (VZ (match hd_error (xss i) with Some _ => Z.of_nat i | None => (-1)%Z end)))
       (fun _ : nat => RObjs (map (fun i => VZ (f i)) (seq 0 n)));
    [exact Hne|intros; reflexivity|apply (respond_allgatherobj g (fun i => VZ (f i))); [exact Hne|apply seq_length]|].
  cbv beta iota zeta delta [cont]. rewrite map_map.
  rewrite (map_ext (fun x => vZ (VZ (f x))) f) by reflexivity. rewrite Emax.
  change (Z.eqb (-1) (-1)) with true. cbv iota.
  apply run_all_ret_ext. intros i _. reflexivity.
Qed.

Lemma sync_dtype_shape_run fx g (xss : nat -> list tensor) d z : let n := List.length g in
  n > 0 -> src_ok fx g -> (exists i, i < n /\ xss i <> []) ->
  (forall i, i < n -> forall t, In t (xss i) -> tens_ok d z t) ->
  exists mr, (List.length (snd mr) = d /\ fst mr = z) /\
    run_all (respond g) (map (fun i => sync_dtype_shape fx g i (hd_error (xss i))) (seq 0 n))
    = Some (map (fun _ => Ok (Some mr)) (seq 0 n)).
Proof.
  intros n Hn Hsrc (i0 & Hi0 & Hne0) Ht.
  set (f := fun i => match hd_error (xss i) with Some _ => Z.of_nat i | None => (-1)%Z end).
  assert (Hr : exists r x l, r < n /\ xss r = x :: l /\ maxZ (map f (seq 0 n)) = Z.of_nat r).
  { assert (Hge : (Z.of_nat i0 <= maxZ (map f (seq 0 n)))%Z).
    { apply maxZ_ge. apply in_map_iff. exists i0. split; [|apply in_seq; lia].
      unfold f. destruct (xss i0); [congruence|reflexivity]. }
    pose proof (maxZ_in (map f (seq 0 n))) as HM.
    set (M := maxZ (map f (seq 0 n))) in *. destruct HM as [E|Hin]; [lia|].
    apply in_map_iff in Hin as (r & Er & Hr). apply in_seq in Hr. unfold f in Er.
    destruct (xss r) as [|x l] eqn:Ex; cbn [hd_error] in Er; [lia|].
    exists r, x, l. split; [lia|]. split; [exact Ex|]. symmetry. exact Er. }
  destruct Hr as (r & x & l & Hrn & Ex & Emax).
  exists (meta_of x). split.
  { destruct (Ht r Hrn x) as (_ & Hd & Hz); [rewrite Ex; left; reflexivity|]. split; assumption. }
  assert (Hne : seq 0 n <> []) by apply seq_ne, Hn.
  destruct (src_ok_root fx g r Hsrc Hrn) as [Hin Hidx].
  unfold sync_dtype_shape.
  step (fun i => AllGatherObj (VZ (match hd_error (xss i) with Some _ => Z.of_nat i | None => (-1)%Z end)))
       (fun _ : nat => RObjs (map (fun i => VZ (f i)) (seq 0 n)));
    [exact Hne|intros; reflexivity|apply (respond_allgatherobj g (fun i => VZ (f i))); [exact Hne|apply seq_length]|].
  cbv beta iota zeta delta [cont]. rewrite map_map.
  rewrite (map_ext (fun x => vZ (VZ (f x))) f) by reflexivity. rewrite Emax.
  destruct (Z.eqb_spec (Z.of_nat r) (-1)) as [Hm1|_]; [lia|]. rewrite Nat2Z.id.
  step (fun i => BcastObj (src_root fx g r)
                   (if Z.eqb (Z.of_nat i) (Z.of_nat r) then option_map meta_of (hd_error (xss i)) else None))
       (fun _ : nat => RMeta (Some (meta_of x)));
    [exact Hne|intros; reflexivity| |].
  { rewrite (respond_bcast g (src_root fx g r) r) by assumption. rewrite Z.eqb_refl, Ex. reflexivity. }
  apply run_all_ret_ext. intros i _. reflexivity.
Qed.

Lemma all_empty_dec (xss : nat -> list tensor) n :
  (forall i, i < n -> xss i = []) \/ (exists i, i < n /\ xss i <> []).
Proof.
  induction n as [|n [IH|(i & Hi & Hne)]]; [left; intros; lia| |right; exists i; split; [lia|exact Hne]].
  destruct (xss n) eqn:E.
  - left. intros i Hi. destruct (Nat.eq_dec i n) as [->|]; [exact E|apply IH; lia].
  - right. exists n. split; [lia|]. rewrite E. discriminate.
Qed.

Lemma accR_final Wg n xss K : K > 0 -> (forall j, j < n -> List.length (xss j) <= K) ->
  accR Wg n xss K = pad_slots Wg (map (fun j => GL (xss j)) (seq 0 n)).
Proof.
  intros HK Hl. rewrite pad_slots_seq. unfold accR. f_equal. apply map_ext_in. intros j Hj. apply in_seq in Hj.
  destruct K as [|K]; [lia|]. rewrite firstn_all2 by (apply Hl; lia). reflexivity.
Qed.

Lemma list_sync_some fx g dst Wg (xss : nat -> list tensor) d z : let n := List.length g in
  n > 0 -> n <= Wg -> dst_ok fx g dst ->
  (forall i, i < n -> forall t, In t (xss i) -> tens_ok d z t) ->
  (exists i, i < n /\ xss i <> []) ->
  ((exists i, i < n /\ xss i = []) -> src_ok fx g) ->
  run_all (respond g) (map (fun i => sync_list fx g dst i Wg (xss i)) (seq 0 n))
  = Some (map (fun i => Ok (if receives dst i then pad_slots Wg (map (fun j => GL (xss j)) (seq 0 n))
                            else untouched Wg)) (seq 0 n)).
Proof.
  intros n Hn HW Hok Ht Hsome Hempty.
  assert (Hne : seq 0 n <> []) by apply seq_ne, Hn.
  set (lens := map (fun j => List.length (xss j)) (seq 0 n)).
  assert (HK : maxl lens > 0).
  { destruct Hsome as (i0 & Hi0 & Hne0). assert (List.length (xss i0) <= maxl lens).
    { apply maxl_ge. unfold lens. apply (in_map (fun j => List.length (xss j))), in_seq. lia. }
    destruct (xss i0); [congruence|]. cbn [List.length] in *. lia. }
  assert (Hfin : accR Wg n xss (0 + maxl lens) = pad_slots Wg (map (fun j => GL (xss j)) (seq 0 n))).
  { apply accR_final; [exact HK|]. intros j Hj. apply maxl_ge. unfold lens.
    apply (in_map (fun j => List.length (xss j))), in_seq. lia. }
  assert (Hloop : forall ms : nat -> meta, (forall i, i < n -> List.length (snd (ms i)) = d /\ fst (ms i) = z) ->
    run_all (respond g) (map (fun i => list_loop fx g dst i (ms i) lens (xss i) 0 (maxl lens) (untouched Wg)) (seq 0 n))
    = Some (map (fun i => Ok (if receives dst i then pad_slots Wg (map (fun j => GL (xss j)) (seq 0 n))
                              else untouched Wg)) (seq 0 n))).
  { intros ms Hms. rewrite <- Hfin.
    refine (extK g (fun i => list_loop fx g dst i (ms i) lens (xss i) 0 (maxl lens)
                               (if receives dst i then accR Wg n xss 0 else untouched Wg)) _ _ _ _ _).
    - intros i _. destruct (receives dst i); [|reflexivity]. f_equal. unfold accR. apply untouched_split, HW.
    - apply (list_loop_run fx g dst Wg xss ms d z Hn Hok Ht Hms). }
  unfold sync_list.
  step (fun i => AllGatherObj (VZ (Z.of_nat (List.length (xss i)))))
       (fun _ : nat => RObjs (map (fun i => VZ (Z.of_nat (List.length (xss i)))) (seq 0 n)));
    [exact Hne|intros; reflexivity|apply (respond_allgatherobj g (fun i => VZ (Z.of_nat (List.length (xss i))))); [exact Hne|apply seq_length]|].
  cbv beta iota zeta delta [cont]. rewrite map_map.
  rewrite (map_ext (fun x => Z.to_nat (vZ (VZ (Z.of_nat (List.length (xss x)))))) (fun x => List.length (xss x)))
    by (intros; apply Nat2Z.id).
  fold lens. destruct (existsb (Nat.eqb 0) lens) eqn:Hex.
  - (* some rank holds an empty list: dtype/shape broadcast *)
    assert (Hg : src_ok fx g).
    { apply Hempty. apply existsb_exists in Hex as (len & Hin & E). apply Nat.eqb_eq in E. subst len.
      unfold lens in Hin. apply in_map_iff in Hin as (i & El & Hi). apply in_seq in Hi.
      exists i. split; [lia|]. apply length_zero_iff_nil. exact El. }
    destruct (sync_dtype_shape_run fx g xss d z Hn Hg Hsome Ht) as (mr & Hmr & Hrun).
    bindr_with (fun i => sync_dtype_shape fx g i (hd_error (xss i))) (fun _ : nat => Some mr).
    { exact Hrun. }
    apply (Hloop (fun _ => mr)). intros i _. exact Hmr.
  - (* no rank is empty *)
    set (ms := fun i => match xss i with x0 :: _ => meta_of x0 | [] => (z, repeat 0 d) end).
    refine (extK g (fun i => list_loop fx g dst i (ms i) lens (xss i) 0 (maxl lens) (untouched Wg)) _ _ _ _ _).
    + intros i Hi. apply in_seq in Hi. unfold ms. destruct (xss i) as [|x0 l] eqn:Ex; [|reflexivity].
      exfalso. assert (Hf : existsb (Nat.eqb 0) lens = true); [|congruence].
      apply existsb_exists. exists 0. split; [|reflexivity]. unfold lens.
      apply in_map_iff. exists i. split; [rewrite Ex; reflexivity|apply in_seq; lia].
    + apply Hloop. intros i Hi. unfold ms. destruct (xss i) as [|x0 l] eqn:Ex.
      * cbn [fst snd]. rewrite repeat_length. split; reflexivity.
      * destruct (Ht i Hi x0) as (_ & Hd & Hz); [rewrite Ex; left; reflexivity|]. split; assumption.
Qed.


Lemma list_sync_all_empty fx g dst Wg (xss : nat -> list tensor) : let n := List.length g in
  n > 0 -> fx_d12 fx = true -> (forall i, i < n -> xss i = []) ->
  run_all (respond g) (map (fun i => sync_list fx g dst i Wg (xss i)) (seq 0 n))
  = Some (map (fun i => Ok (if receives dst i then pad_slots Wg (map (fun j => GL (xss j)) (seq 0 n))
                            else untouched Wg)) (seq 0 n)).
Proof.
  intros n Hn H12 Hall.
  assert (Hne : seq 0 n <> []) by apply seq_ne, Hn.
  set (lens := map (fun j => List.length (xss j)) (seq 0 n)).
  unfold sync_list.
  step (fun i => AllGatherObj (VZ (Z.of_nat (List.length (xss i)))))
       (fun _ : nat => RObjs (map (fun i => VZ (Z.of_nat (List.length (xss i)))) (seq 0 n)));
    [exact Hne|intros; reflexivity|apply (respond_allgatherobj g (fun i => VZ (Z.of_nat (List.length (xss i))))); [exact Hne|apply seq_length]|].
  cbv beta iota zeta delta [cont]. rewrite map_map.
  rewrite (map_ext (fun x => Z.to_nat (vZ (VZ (Z.of_nat (List.length (xss x)))))) (fun x => List.length (xss x)))
    by (intros; apply Nat2Z.id).
  fold lens.
  assert (Hex : existsb (Nat.eqb 0) lens = true).
  { apply existsb_exists. exists 0. split; [|reflexivity]. unfold lens. apply in_map_iff. exists 0.
    split; [rewrite Hall by exact Hn; reflexivity|apply in_seq; lia]. }
  rewrite Hex.
  bindr_with (fun i => sync_dtype_shape fx g i (hd_error (xss i))) (fun _ : nat => @None meta).
  { apply (sync_dtype_shape_none fx g xss Hn Hall). }
  apply run_all_ret_ext. intros i _. rewrite H12. cbn [andb]. destruct (receives dst i); [|reflexivity].
  do 3 f_equal. unfold lens. rewrite map_map. apply map_ext_in. intros j Hj. apply in_seq in Hj.
  rewrite Hall by lia. reflexivity.
Qed.

(* general form: the group condition is needed only when empty and non-empty lists coexist *)
Theorem list_sync_lossless_gen fx g dst Wg (xss : nat -> list tensor) d z : let n := List.length g in
  n > 0 -> n <= Wg -> dst_ok fx g dst ->
  (forall i, i < n -> forall t, In t (xss i) -> tens_ok d z t) ->
  (fx_d12 fx = true \/ exists i, i < n /\ xss i <> []) ->
  ((exists i, i < n /\ xss i = []) -> (exists i, i < n /\ xss i <> []) -> src_ok fx g) ->
  run_all (respond g) (map (fun i => sync_list fx g dst i Wg (xss i)) (seq 0 n))
  = Some (map (fun i => Ok (if receives dst i then pad_slots Wg (map (fun j => GL (xss j)) (seq 0 n))
                            else untouched Wg)) (seq 0 n)).
Proof.
  intros n Hn HW Hok Ht H12 Hsrc. destruct (all_empty_dec xss n) as [Hall|Hsome].
  - destruct H12 as [H12|(i & Hi & Hne)]; [|exfalso; apply Hne, Hall, Hi].
    apply (list_sync_all_empty fx g dst Wg xss Hn H12 Hall).
  - apply (list_sync_some fx g dst Wg xss d z Hn HW Hok Ht Hsome). intros He. apply Hsrc; assumption.
Qed.

Theorem list_sync_lossless fx g dst Wg (xss : nat -> list tensor) d z : let n := List.length g in
  n > 0 -> n <= Wg -> dst_ok fx g dst ->
  (forall i, i < n -> forall t, In t (xss i) -> tens_ok d z t) ->
  (fx_d12 fx = true \/ exists i, i < n /\ xss i <> []) ->
  ((exists i, i < n /\ xss i = []) -> (if fx_d9 fx then NoDup g else g = seq 0 n)) ->
  run_all (respond g) (map (fun i => sync_list fx g dst i Wg (xss i)) (seq 0 n))
  = Some (map (fun i => Ok (if receives dst i then pad_slots Wg (map (fun j => GL (xss j)) (seq 0 n))
                            else untouched Wg)) (seq 0 n)).
Proof.
  intros n Hn HW Hok Ht H12 Hsrc.
  apply (list_sync_lossless_gen fx g dst Wg xss d z Hn HW Hok Ht H12). intros He _. exact (Hsrc He).
Qed.

(* ------------------------------------------------------------------ sync_dict *)
Lemma ins_key_in {X} (y x : string * X) l : In y (ins_key x l) -> y = x \/ In y l.
Proof.
  induction l as [|k r IH]; cbn [ins_key]; [intros [<-|[]]; left; reflexivity|].
  destruct (String.leb (fst x) (fst k)).
  - intros [<-|H]; [left; reflexivity|right; exact H].
  - intros [<-|H]; [right; left; reflexivity|]. destruct (IH H) as [->|H']; [left; reflexivity|right; right; exact H'].
Qed.
Lemma sort_keys_in {X} (y : string * X) l : In y (sort_keys l) -> In y l.
Proof.
  induction l as [|x l IH]; [intros []|]. unfold sort_keys. cbn [fold_right]. intros H.
  apply ins_key_in in H as [->|H]; [left; reflexivity|right; apply IH, H].
Qed.
Lemma combine_fst_snd {X Y} (l : list (X * Y)) : combine (map fst l) (map snd l) = l.
Proof. induction l as [|[a b] l IH]; [reflexivity|]. cbn [map combine fst snd]. f_equal. exact IH. Qed.
Lemma map_repeat' {X Y} (f : X -> Y) x n : map f (repeat x n) = repeat (f x) n.
Proof. induction n as [|n IH]; [reflexivity|]. cbn [repeat map]. f_equal. exact IH. Qed.

Theorem dict_sync_lossless_same_keys fx g dst Wg (kvs : nat -> list (string * tensor)) (ks : list string) d z :
  let n := List.length g in
  n > 0 -> n <= Wg -> dst_ok fx g dst -> (fx_d12 fx = true \/ ks <> []) ->
  (forall i, i < n -> map fst (sort_keys (kvs i)) = ks) ->
  (forall i, i < n -> forall kt, In kt (kvs i) -> tens_ok d z (snd kt)) ->
  run_all (respond g) (map (fun i => sync_dict fx g dst i Wg (kvs i)) (seq 0 n))
  = Some (map (fun i => Ok (if receives dst i
                            then map (fun j => GD (sort_keys (kvs j))) (seq 0 n) ++ repeat (GD []) (Wg - n)
                            else untouched Wg)) (seq 0 n)).
Proof.
  intros n Hn HW Hok Hks Hkeys Ht. unfold sync_dict. cbv zeta.
  assert (Hlen : forall i, i < n -> List.length (map snd (sort_keys (kvs i))) = List.length ks).
  { intros i Hi. rewrite <- (Hkeys i Hi), !map_length. reflexivity. }
  bindr_with (fun i => sync_list fx g dst i Wg (map snd (sort_keys (kvs i))))
             (fun i => if receives dst i
                       then pad_slots Wg (map (fun j => GL (map snd (sort_keys (kvs j)))) (seq 0 n))
                       else untouched Wg).
  { apply (list_sync_lossless_gen fx g dst Wg (fun i => map snd (sort_keys (kvs i))) d z Hn HW Hok).
    - intros i Hi t Hin. apply in_map_iff in Hin as (kt & <- & Hkt). apply (Ht i Hi), sort_keys_in, Hkt.
    - destruct Hks as [H12|Hks]; [left; exact H12|right]. exists 0. split; [exact Hn|].
      intros E. apply Hks, length_zero_iff_nil. rewrite <- (Hlen 0 Hn), E. reflexivity.
    - intros (i & Hi & E) (j & Hj & Ene). exfalso. apply Ene, length_zero_iff_nil.
      rewrite (Hlen j Hj), <- (Hlen i Hi), E. reflexivity. }
  apply run_all_ret_ext. intros i Hi. apply in_seq in Hi. destruct (receives dst i); [|reflexivity].
  do 2 f_equal. rewrite pad_slots_seq, map_app, map_map. f_equal.
  - apply map_ext_in. intros j Hj. apply in_seq in Hj. cbn [glist].
    rewrite (Hkeys i) by lia. rewrite <- (Hkeys j) by lia. rewrite combine_fst_snd. reflexivity.
  - rewrite map_repeat'. cbn [glist]. destruct (map fst (sort_keys (kvs i))); reflexivity.
Qed.

(* ------------------------------------------------------------------ sync_tensor / ideal families *)
Theorem tensor_sync_lossless fx g dst Wg (ts : nat -> tensor) d z : let n := List.length g in
  n > 0 -> dst_ok fx g dst -> (forall i, i < n -> tens_okx fx d z (ts i)) ->
  run_all (respond g) (map (fun i => sync_tensor fx g dst i Wg (ts i)) (seq 0 n))
  = Some (map (fun i => Ok (if receives dst i then pad_slots Wg (map (fun j => GT (ts j)) (seq 0 n))
                            else untouched Wg)) (seq 0 n)).
Proof.
  intros n Hn Hok Ht. unfold sync_tensor.
  bindr_with (fun i => send_tensors fx g dst i (ts i)) (fun i => if receives dst i then Some (map ts (seq 0 n)) else None).
  { apply (send_tensors_lossless fx g dst ts d z Hn Hok Ht). }
  apply run_all_ret_ext. intros i _. destruct (receives dst i); [|reflexivity]. rewrite map_map. reflexivity.
Qed.

(* the sync of one state (one traversal key) is ideal: every receiving rank obtains, for slot
   j < n, the ideal value [iv j] of rank j's state, and [tl] in the slots of ranks outside the group;
   the other ranks keep the untouched placeholders *)
Definition ideal_family (fx : fixes) (g : list nat) (dst : option nat) (Wg : nat) (ss : nat -> state)
           (iv : nat -> gs) (tl : gs) : Prop :=
  run_all (respond g) (map (fun i => state_sync fx g dst i Wg (ss i)) (seq 0 (List.length g)))
  = Some (map (fun i => Ok (if receives dst i
                            then map iv (seq 0 (List.length g)) ++ repeat tl (Wg - List.length g)
                            else untouched Wg)) (seq 0 (List.length g))).

Lemma ideal_tensor fx g dst Wg (ts : nat -> tensor) d z :
  List.length g > 0 -> dst_ok fx g dst -> (forall i, i < List.length g -> tens_okx fx d z (ts i)) ->
  ideal_family fx g dst Wg (fun i => STensor (ts i)) (fun j => GT (ts j)) GEmpty.
Proof.
  intros Hn Hok Ht. unfold ideal_family. cbn [state_sync].
  rewrite (tensor_sync_lossless fx g dst Wg ts d z Hn Hok Ht). rewrite pad_slots_seq. reflexivity.
Qed.
Lemma ideal_obj fx g dst Wg (vs : nat -> val) :
  List.length g > 0 -> dst_ok fx g dst ->
  ideal_family fx g dst Wg (fun i => SObj (vs i)) (fun j => GO (vs j)) GEmpty.
Proof.
  intros Hn Hok. unfold ideal_family. cbn [state_sync].
  rewrite (obj_sync_lossless fx g dst Wg vs Hn Hok). rewrite pad_slots_seq. reflexivity.
Qed.
Lemma ideal_list fx g dst Wg (xss : nat -> list tensor) d z : let n := List.length g in
  n > 0 -> n <= Wg -> dst_ok fx g dst ->
  (forall i, i < n -> forall t, In t (xss i) -> tens_ok d z t) ->
  (fx_d12 fx = true \/ exists i, i < n /\ xss i <> []) ->
  ((exists i, i < n /\ xss i = []) -> (if fx_d9 fx then NoDup g else g = seq 0 n)) ->
  ideal_family fx g dst Wg (fun i => SList (xss i)) (fun j => GL (xss j)) GEmpty.
Proof.
  intros n Hn HW Hok Ht H1 H2. unfold ideal_family. cbn [state_sync].
  rewrite (list_sync_lossless fx g dst Wg xss d z Hn HW Hok Ht H1 H2). rewrite pad_slots_seq. reflexivity.
Qed.
Lemma ideal_dict fx g dst Wg (kvs : nat -> list (string * tensor)) ks d z : let n := List.length g in
  n > 0 -> n <= Wg -> dst_ok fx g dst -> (fx_d12 fx = true \/ ks <> []) ->
  (forall i, i < n -> map fst (sort_keys (kvs i)) = ks) ->
  (forall i, i < n -> forall kt, In kt (kvs i) -> tens_ok d z (snd kt)) ->
  ideal_family fx g dst Wg (fun i => SDict (kvs i)) (fun j => GD (sort_keys (kvs j))) (GD []).
Proof.
  intros n Hn HW Hok Hks Hk Ht. unfold ideal_family. cbn [state_sync].
  exact (dict_sync_lossless_same_keys fx g dst Wg kvs ks d z Hn HW Hok Hks Hk Ht).
Qed.

(* ------------------------------------------------------------------ sync_states *)
Lemma sync_loop_cons fx g dst i Wg md k r gath :
  sync_loop fx g dst i Wg md (k :: r) gath
  = match lookup2 md k with
    | Some s => bindr (state_sync fx g dst i Wg s) (fun vals => sync_loop fx g dst i Wg md r (put k vals gath))
    | None => Ret (Exc "KeyError")
    end.
Proof. reflexivity. Qed.

Lemma sync_loop_run fx g dst Wg (mds : nat -> mdict) (V : key -> list gs) : let n := List.length g in
  forall order,
  (forall k, In k order -> exists ss, (forall i, i < n -> lookup2 (mds i) k = Some (ss i)) /\
     run_all (respond g) (map (fun i => state_sync fx g dst i Wg (ss i)) (seq 0 n))
     = Some (map (fun i => Ok (if receives dst i then V k else untouched Wg)) (seq 0 n))) ->
  forall G : nat -> list gdict,
  run_all (respond g) (map (fun i => sync_loop fx g dst i Wg (mds i) order (G i)) (seq 0 n))
  = Some (map (fun i => Ok (fold_left (fun gt k => put k (if receives dst i then V k else untouched Wg) gt)
                                      order (G i))) (seq 0 n)).
Proof.
  intros n. induction order as [|k r IH]; intros H G.
  - apply run_all_ret_ext. intros i _. reflexivity.
  - destruct (H k (or_introl eq_refl)) as (ss & Hl & Hrun).
    refine (extK g (fun i => bindr (state_sync fx g dst i Wg (ss i))
                               (fun vals => sync_loop fx g dst i Wg (mds i) r (put k vals (G i)))) _ _ _ _ _).
    + intros i Hi. apply in_seq in Hi. rewrite sync_loop_cons, Hl by lia. reflexivity.
    + bindr_with (fun i => state_sync fx g dst i Wg (ss i)) (fun i => if receives dst i then V k else untouched Wg).
      { exact Hrun. }
      rewrite (IH (fun k' Hk' => H k' (or_intror Hk'))
                  (fun i => put k (if receives dst i then V k else untouched Wg) (G i))).
      reflexivity.
Qed.

Definition gath_of (V : key -> list gs) (order : list key) (Wg : nat) : list gdict :=
  fold_left (fun gt k => put k (V k) gt) order (repeat (template order) Wg).

Lemma sync_states_run fx g dst Wg (mds : nat -> mdict) (V : key -> list gs) order : let n := List.length g in
  (forall k, In k order -> exists ss, (forall i, i < n -> lookup2 (mds i) k = Some (ss i)) /\
     run_all (respond g) (map (fun i => state_sync fx g dst i Wg (ss i)) (seq 0 n))
     = Some (map (fun i => Ok (if receives dst i then V k else untouched Wg)) (seq 0 n))) ->
  run_all (respond g) (map (fun i => sync_states fx g dst i Wg (mds i) order) (seq 0 n))
  = Some (map (fun i => Ok (if receives dst i then Some (gath_of V order Wg) else None)) (seq 0 n)).
Proof.
  intros n H. unfold sync_states.
  bindr_with (fun i => sync_loop fx g dst i Wg (mds i) order (repeat (template order) Wg))
             (fun i => fold_left (fun gt k => put k (if receives dst i then V k else untouched Wg) gt)
                                 order (repeat (template order) Wg)).
  { apply (sync_loop_run fx g dst Wg mds V order H (fun _ => repeat (template order) Wg)). }
  apply run_all_ret_ext. intros i _. destruct (receives dst i); reflexivity.
Qed.

(* ---- addressing: get_key after the puts ---- *)
Lemma key_eqb_eq a b : key_eqb a b = true <-> a = b.
Proof.
  unfold key_eqb. destruct a as [a1 a2], b as [b1 b2]. cbn [fst snd]. rewrite andb_true_iff, !String.eqb_eq.
  split; [intros [-> ->]; reflexivity|intros E; inversion E; auto].
Qed.
Lemma key_eqb_refl a : key_eqb a a = true.
Proof. apply key_eqb_eq. reflexivity. Qed.

Lemma get_set_same k v d : get_key k d <> None -> get_key k (set_key k v d) = Some v.
Proof.
  induction d as [|[k' x] r IH]; cbn [get_key set_key]; [congruence|].
  destruct (key_eqb k k') eqn:E; cbn [get_key]; rewrite E; [reflexivity|exact IH].
Qed.
Lemma get_set_other k k' v d : k <> k' -> get_key k (set_key k' v d) = get_key k d.
Proof.
  intros Hne. induction d as [|[k'' x] r IH]; cbn [get_key set_key]; [reflexivity|].
  destruct (key_eqb k' k'') eqn:E'; cbn [get_key].
  - apply key_eqb_eq in E'. subst k''. destruct (key_eqb k k') eqn:E; [|reflexivity].
    apply key_eqb_eq in E. congruence.
  - rewrite IH. reflexivity.
Qed.
Lemma get_set_dom k k' v d : get_key k d <> None -> get_key k (set_key k' v d) <> None.
Proof.
  intros H. destruct (key_eqb k k') eqn:E.
  - apply key_eqb_eq in E. subst k'. rewrite get_set_same by exact H. discriminate.
  - rewrite get_set_other; [exact H|]. intros ->. rewrite key_eqb_refl in E. discriminate.
Qed.

Lemma map2_length {X Y Z} (f : X -> Y -> Z) : forall a b, List.length a = List.length b ->
  List.length (map2 f a b) = List.length a.
Proof. induction a as [|x a IH]; intros [|y b] H; cbn in *; try lia. f_equal. apply IH. lia. Qed.
Lemma nth_map2 {X Y Z} (f : X -> Y -> Z) : forall a b j da db dc,
  j < List.length a -> j < List.length b -> nth j (map2 f a b) dc = f (nth j a da) (nth j b db).
Proof.
  induction a as [|x a IH]; intros [|y b] j da db dc Ha Hb; cbn in Ha, Hb; try lia.
  destruct j as [|j]; [reflexivity|]. cbn [map2 nth]. apply IH; lia.
Qed.

Lemma get_template k order : In k order -> get_key k (template order) = Some GEmpty.
Proof.
  unfold template. induction order as [|a r IH]; [intros []|]. intros Hin. cbn [map get_key].
  destruct (key_eqb k a) eqn:E; [reflexivity|]. destruct Hin as [->|Hin]; [rewrite key_eqb_refl in E; discriminate|].
  apply IH, Hin.
Qed.

Lemma fold_put_spec (V : key -> list gs) Wg j (G : list gdict) : j < Wg -> List.length G = Wg ->
  forall r, (forall k, In k r -> List.length (V k) = Wg) ->
  List.length (fold_left (fun gt k => put k (V k) gt) r G) = Wg /\
  (forall k0, get_key k0 (nth j G []) <> None ->
              get_key k0 (nth j (fold_left (fun gt k => put k (V k) gt) r G) []) <> None) /\
  (forall k0, In k0 r -> get_key k0 (nth j G []) <> None ->
              get_key k0 (nth j (fold_left (fun gt k => put k (V k) gt) r G) []) = Some (nth j (V k0) GEmpty)).
Proof.
  intros Hj HG. induction r as [|k1 r IH] using rev_ind; intros HV.
  - cbn [fold_left]. split; [exact HG|]. split; [auto|intros k0 []].
  - destruct IH as (IHl & IHd & IHv); [intros k Hk; apply HV, in_or_app; left; exact Hk|].
    assert (HV1 : List.length (V k1) = Wg) by (apply HV, in_or_app; right; left; reflexivity).
    rewrite fold_left_app. cbn [fold_left]. set (G' := fold_left (fun gt k => put k (V k) gt) r G) in *.
    assert (Hnth : nth j (put k1 (V k1) G') [] = set_key k1 (nth j (V k1) GEmpty) (nth j G' [])).
    { unfold put. apply nth_map2; lia. }
    split; [unfold put; rewrite map2_length; lia|]. rewrite Hnth. split.
    + intros k0 H0. apply get_set_dom, IHd, H0.
    + intros k0 Hin H0. destruct (key_eqb k0 k1) eqn:E.
      * apply key_eqb_eq in E. subst k1. apply get_set_same, IHd, H0.
      * assert (Hne : k0 <> k1) by (intros ->; rewrite key_eqb_refl in E; discriminate).
        rewrite get_set_other by exact Hne. apply IHv; [|exact H0].
        apply in_app_or in Hin as [Hin|[->|[]]]; [exact Hin|congruence].
Qed.

Lemma nth_repeat' {X} (x d : X) n j : j < n -> nth j (repeat x n) d = x.
Proof. intros H. apply (repeat_spec n x). apply nth_In. rewrite repeat_length. exact H. Qed.

Lemma gath_of_spec V order Wg : (forall k, In k order -> List.length (V k) = Wg) ->
  List.length (gath_of V order Wg) = Wg /\
  forall j k, j < Wg -> In k order -> get_key k (nth j (gath_of V order Wg) []) = Some (nth j (V k) GEmpty).
Proof.
  intros HV. unfold gath_of. split.
  - destruct Wg as [|W]; [|apply (fold_put_spec V (S W) 0 _ ltac:(lia) (repeat_length _ _) order HV)].
    clear HV. cbn [repeat].
    induction order as [|k r IH]; [reflexivity|]. cbn [fold_left]. unfold put at 2.
    destruct (V k); cbn [map2]; apply IH.
  - intros j k Hj Hk.
    destruct (fold_put_spec V Wg j (repeat (template order) Wg) Hj (repeat_length _ _) order HV) as (_ & _ & H).
    apply H; [exact Hk|]. rewrite nth_repeat' by exact Hj. rewrite get_template by exact Hk. discriminate.
Qed.

Theorem mixed_collection_addressing fx g dst Wg (mds : nat -> mdict) (order : list key)
        (iv : key -> nat -> gs) (tl : key -> gs) : let n := List.length g in
  n <= Wg ->
  (forall k, In k order -> exists ss, (forall i, i < n -> lookup2 (mds i) k = Some (ss i)) /\
                                      ideal_family fx g dst Wg ss (iv k) (tl k)) ->
  exists gath,
    run_all (respond g) (map (fun i => sync_states fx g dst i Wg (mds i) order) (seq 0 n))
    = Some (map (fun i => Ok (if receives dst i then Some gath else None)) (seq 0 n)) /\
    List.length gath = Wg /\
    (forall j k, j < n -> In k order -> get_key k (nth j gath []) = Some (iv k j)) /\
    (forall j k, n <= j < Wg -> In k order -> get_key k (nth j gath []) = Some (tl k)).
Proof.
  intros n HW H.
  set (V := fun k => map (iv k) (seq 0 n) ++ repeat (tl k) (Wg - n)).
  assert (HV : forall k, In k order -> List.length (V k) = Wg).
  { intros k _. unfold V. rewrite app_length, map_length, seq_length, repeat_length. lia. }
  exists (gath_of V order Wg). split; [apply (sync_states_run fx g dst Wg mds V order H)|].
  destruct (gath_of_spec V order Wg HV) as [Hl Hg]. split; [exact Hl|]. split.
  - intros j k Hj Hk. rewrite Hg by (assumption || lia). f_equal. unfold V.
    rewrite app_nth1 by (rewrite map_length, seq_length; exact Hj). apply nth_map_seq, Hj.
  - intros j k Hj Hk. rewrite Hg by (assumption || lia). f_equal. unfold V.
    rewrite app_nth2 by (rewrite map_length, seq_length; lia). apply nth_repeat'.
    rewrite map_length, seq_length. lia.
Qed.

(* ---- the gathered dicts, explicitly (traversal keys without duplicates) ---- *)
Lemma set_key_fst k v d : map fst (set_key k v d) = map fst d.
Proof.
  induction d as [|[k' x] r IH]; [reflexivity|]. cbn [set_key].
  destruct (key_eqb k k'); cbn [map fst]; [reflexivity|]. f_equal. exact IH.
Qed.

Lemma fold_put_keys (V : key -> list gs) Wg j (G : list gdict) : j < Wg -> List.length G = Wg ->
  forall r, (forall k, In k r -> List.length (V k) = Wg) ->
  map fst (nth j (fold_left (fun gt k => put k (V k) gt) r G) []) = map fst (nth j G []).
Proof.
  intros Hj HG. induction r as [|k1 r IH] using rev_ind; intros HV; [reflexivity|].
  assert (HVr : forall k, In k r -> List.length (V k) = Wg) by (intros k Hk; apply HV, in_or_app; left; exact Hk).
  assert (HV1 : List.length (V k1) = Wg) by (apply HV, in_or_app; right; left; reflexivity).
  destruct (fold_put_spec V Wg j G Hj HG r HVr) as (Hl & _ & _).
  rewrite fold_left_app. cbn [fold_left]. unfold put at 1.
  rewrite (nth_map2 (set_key k1) (V k1) _ j GEmpty [] []) by lia. rewrite set_key_fst. apply IH, HVr.
Qed.

Lemma gdict_ext (v : key -> gs) : forall d : gdict, NoDup (map fst d) ->
  (forall k, In k (map fst d) -> get_key k d = Some (v k)) -> d = map (fun k => (k, v k)) (map fst d).
Proof.
  induction d as [|[k x] r IH]; intros Hnd H; [reflexivity|]. cbn [map fst] in *.
  inversion Hnd as [|? ? Hnin Hnd']; subst.
  pose proof (H k (or_introl eq_refl)) as Hk. cbn [get_key] in Hk. rewrite key_eqb_refl in Hk.
  inversion Hk; subst. f_equal. apply IH; [exact Hnd'|].
  intros k' Hk'. specialize (H k' (or_intror Hk')). cbn [get_key] in H.
  destruct (key_eqb k' k) eqn:E; [|exact H]. apply key_eqb_eq in E. subst k'. contradiction.
Qed.

Lemma template_fst order : map fst (template order) = order.
Proof. unfold template. rewrite map_map. cbn [fst]. apply map_id. Qed.

Lemma gath_of_slot V order Wg j : NoDup order -> (forall k, In k order -> List.length (V k) = Wg) -> j < Wg ->
  nth j (gath_of V order Wg) [] = map (fun k => (k, nth j (V k) GEmpty)) order.
Proof.
  intros Hnd HV Hj.
  assert (Hk : map fst (nth j (gath_of V order Wg) []) = order).
  { unfold gath_of. rewrite (fold_put_keys V Wg j _ Hj (repeat_length _ _) order HV).
    rewrite nth_repeat' by exact Hj. apply template_fst. }
  rewrite (gdict_ext (fun k => nth j (V k) GEmpty) (nth j (gath_of V order Wg) [])).
  - rewrite Hk. reflexivity.
  - rewrite Hk. exact Hnd.
  - rewrite Hk. intros k Hin. apply (gath_of_spec V order Wg HV); assumption.
Qed.

(* slot j of gathered_states: rank j's ideal values in traversal order (j < n), else the fillers *)
Definition ideal_gath (n Wg : nat) (order : list key) (iv : key -> nat -> gs) (tl : key -> gs) : list gdict :=
  map (fun j => map (fun k => (k, if Nat.ltb j n then iv k j else tl k)) order) (seq 0 Wg).

Lemma gath_of_explicit n Wg order iv tl : NoDup order -> n <= Wg ->
  gath_of (fun k => map (iv k) (seq 0 n) ++ repeat (tl k) (Wg - n)) order Wg = ideal_gath n Wg order iv tl.
Proof.
  intros Hnd HW. set (V := fun k => map (iv k) (seq 0 n) ++ repeat (tl k) (Wg - n)).
  assert (HV : forall k, In k order -> List.length (V k) = Wg).
  { intros k _. unfold V. rewrite app_length, map_length, seq_length, repeat_length. lia. }
  apply (@nth_ext gdict _ _ [] []).
  - rewrite (proj1 (gath_of_spec V order Wg HV)). unfold ideal_gath. rewrite map_length, seq_length. reflexivity.
  - rewrite (proj1 (gath_of_spec V order Wg HV)). intros j Hj.
    rewrite (gath_of_slot V order Wg j Hnd HV Hj). unfold ideal_gath. rewrite nth_map_seq by exact Hj.
    apply map_ext. intros k. f_equal. unfold V. destruct (Nat.ltb_spec j n) as [Hlt|Hge].
    + rewrite app_nth1 by (rewrite map_length, seq_length; exact Hlt). apply nth_map_seq, Hlt.
    + rewrite app_nth2 by (rewrite map_length, seq_length; lia). apply nth_repeat'.
      rewrite map_length, seq_length. lia.
Qed.

Theorem mixed_collection_exact fx g dst Wg (mds : nat -> mdict) (order : list key)
        (iv : key -> nat -> gs) (tl : key -> gs) : let n := List.length g in
  n <= Wg -> NoDup order ->
  (forall k, In k order -> exists ss, (forall i, i < n -> lookup2 (mds i) k = Some (ss i)) /\
                                      ideal_family fx g dst Wg ss (iv k) (tl k)) ->
  run_all (respond g) (map (fun i => sync_states fx g dst i Wg (mds i) order) (seq 0 n))
  = Some (map (fun i => Ok (if receives dst i then Some (ideal_gath n Wg order iv tl) else None)) (seq 0 n)).
Proof.
  intros n HW Hnd H. rewrite <- (gath_of_explicit n Wg order iv tl Hnd HW).
  apply (sync_states_run fx g dst Wg mds _ order H).
Qed.

(* ------------------------------------------------------------------ structural sufficient condition *)
(* what an ideal sync delivers for a state, and what it leaves in the slots of ranks outside the group *)
Definition ideal_of_state (s : state) : gs :=
  match s with STensor t => GT t | SList l => GL l | SDict kv => GD (sort_keys kv) | SObj v => GO v end.
Definition filler (s : state) : gs := match s with SDict _ => GD [] | _ => GEmpty end.

(* the states held by the ranks under one key agree in kind and satisfy the hypotheses of the
   corresponding losslessness theorem *)
Definition kind_ok (fx : fixes) (g : list nat) (ss : nat -> state) : Prop :=
  let n := List.length g in
  (exists ts d z, forall i, i < n -> ss i = STensor (ts i) /\ tens_okx fx d z (ts i)) \/
  (exists vs, forall i, i < n -> ss i = SObj (vs i)) \/
  (exists xss d z, (forall i, i < n -> ss i = SList (xss i) /\ forall t, In t (xss i) -> tens_ok d z t) /\
      (fx_d12 fx = true \/ exists i, i < n /\ xss i <> []) /\
      ((exists i, i < n /\ xss i = []) -> (if fx_d9 fx then NoDup g else g = seq 0 n))) \/
  (exists kvs ks d z, (fx_d12 fx = true \/ ks <> []) /\
      forall i, i < n -> ss i = SDict (kvs i) /\ map fst (sort_keys (kvs i)) = ks /\
                         forall kt, In kt (kvs i) -> tens_ok d z (snd kt)).

Lemma ideal_family_ext fx g dst Wg ss ss' iv iv' tl :
  (forall i, i < List.length g -> ss i = ss' i) -> (forall j, j < List.length g -> iv j = iv' j) ->
  ideal_family fx g dst Wg ss' iv' tl -> ideal_family fx g dst Wg ss iv tl.
Proof.
  unfold ideal_family. intros Hs Hi H.
  refine (extK g (fun i => state_sync fx g dst i Wg (ss' i)) _ _ _ _ _).
  - intros i Hin. apply in_seq in Hin. rewrite Hs by lia. reflexivity.
  - etransitivity; [exact H|]. f_equal. apply map_ext. intros i. destruct (receives dst i); [|reflexivity].
    do 2 f_equal. apply map_ext_in. intros j Hj. apply in_seq in Hj. symmetry. apply Hi. lia.
Qed.

Lemma ideal_of_kind fx g dst Wg ss : let n := List.length g in
  n > 0 -> n <= Wg -> dst_ok fx g dst -> kind_ok fx g ss ->
  ideal_family fx g dst Wg ss (fun j => ideal_of_state (ss j)) (filler (ss 0)).
Proof.
  intros n Hn HW Hok [(ts & d & z & H)|[(vs & H)|[(xss & d & z & H & H1 & H2)|(kvs & ks & d & z & Hks & H)]]].
  - rewrite (proj1 (H 0 Hn)). cbn [filler].
    apply (ideal_family_ext fx g dst Wg ss (fun i => STensor (ts i)) _ (fun j => GT (ts j))).
    + intros i Hi. apply (H i Hi).
    + intros j Hj. rewrite (proj1 (H j Hj)). reflexivity.
    + apply (ideal_tensor fx g dst Wg ts d z Hn Hok). intros i Hi. apply (H i Hi).
  - rewrite (H 0 Hn). cbn [filler].
    apply (ideal_family_ext fx g dst Wg ss (fun i => SObj (vs i)) _ (fun j => GO (vs j))).
    + exact H.
    + intros j Hj. rewrite (H j Hj). reflexivity.
    + apply (ideal_obj fx g dst Wg vs Hn Hok).
  - rewrite (proj1 (H 0 Hn)). cbn [filler].
    apply (ideal_family_ext fx g dst Wg ss (fun i => SList (xss i)) _ (fun j => GL (xss j))).
    + intros i Hi. apply (H i Hi).
    + intros j Hj. rewrite (proj1 (H j Hj)). reflexivity.
    + apply (ideal_list fx g dst Wg xss d z Hn HW Hok); [|exact H1|exact H2]. intros i Hi. apply (H i Hi).
  - rewrite (proj1 (H 0 Hn)). cbn [filler].
    apply (ideal_family_ext fx g dst Wg ss (fun i => SDict (kvs i)) _ (fun j => GD (sort_keys (kvs j)))).
    + intros i Hi. apply (H i Hi).
    + intros j Hj. rewrite (proj1 (H j Hj)). reflexivity.
    + apply (ideal_dict fx g dst Wg kvs ks d z Hn HW Hok Hks); intros i Hi; apply (H i Hi).
Qed.

(* ------------------------------------------------------------------ the repaired variant *)
Lemma dst_ok_fixed g dst : NoDup g -> (match dst with Some d => d < List.length g | None => True end) ->
  dst_ok V_fixed g dst.
Proof. intros Hnd H. destruct dst as [d|]; [|exact I]. split; [exact H|exact Hnd]. Qed.

(* any duplicate-free group, any named rank d < n *)
Corollary send_tensors_lossless_fixed g dst (ts : nat -> tensor) z : let n := List.length g in
  n > 0 -> NoDup g -> (match dst with Some d => d < n | None => True end) ->
  (forall i, i < n -> wf (shp (ts i)) (dat (ts i)) /\ dt (ts i) = z) ->
  run_all (respond g) (map (fun i => send_tensors V_fixed g dst i (ts i)) (seq 0 n))
  = Some (map (fun i => Ok (if receives dst i then Some (map ts (seq 0 n)) else None)) (seq 0 n)).
Proof.
  intros n Hn Hnd Hd Ht.
  exact (send_tensors_dtfix V_fixed g dst ts eq_refl eq_refl Hn (dst_ok_fixed g dst Hnd Hd) (fun i Hi => proj1 (Ht i Hi))).
Qed.

(* V_fixed (ndim and dtype negotiation): any duplicate-free group, any named rank, tensors of ANY per-rank ndim and
   dtype: every receiver obtains, per sending rank, exactly the tensor that rank sent (shape, dtype, content) *)
Corollary send_tensors_lossless_any_dtype fx g dst (ts : nat -> tensor) : let n := List.length g in
  fx_d10 fx = true -> fx_dt fx = true ->
  n > 0 -> dst_ok fx g dst -> (forall i, i < n -> wf (shp (ts i)) (dat (ts i))) ->
  run_all (respond g) (map (fun i => send_tensors fx g dst i (ts i)) (seq 0 n))
  = Some (map (fun i => Ok (if receives dst i then Some (map ts (seq 0 n)) else None)) (seq 0 n)).
Proof. exact (send_tensors_dtfix fx g dst ts). Qed.

(* no all-empty exception, any duplicate-free group *)
Corollary list_sync_lossless_fixed g dst Wg (xss : nat -> list tensor) d z : let n := List.length g in
  n > 0 -> n <= Wg -> NoDup g -> (match dst with Some d => d < n | None => True end) ->
  (forall i, i < n -> forall t, In t (xss i) -> tens_ok d z t) ->
  run_all (respond g) (map (fun i => sync_list V_fixed g dst i Wg (xss i)) (seq 0 n))
  = Some (map (fun i => Ok (if receives dst i then pad_slots Wg (map (fun j => GL (xss j)) (seq 0 n))
                            else untouched Wg)) (seq 0 n)).
Proof.
  intros n Hn HW Hnd Hd Ht.
  apply (list_sync_lossless V_fixed g dst Wg xss d z Hn HW (dst_ok_fixed g dst Hnd Hd) Ht).
  - left. reflexivity.
  - intros _. exact Hnd.
Qed.
