(* C03 for the regression family: class form on any batching = functional model on the concatenation. *)
From Coq Require Import ZArith List Bool QArith Qcanon Lia String.
From TE Require Import Base.Val Base.Nd Base.Xq Algebra.Metric Algebra.MergeTree Algebra.Pool Algebra.Cache
  Models.Aggregation Models.Aggregation2 Models.Regression Models.Stat Proofs.RegressionP Proofs.RegAlgP.
Import ListNotations.
Open Scope list_scope.
Open Scope Qc_scope.

(* ---- Perplexity (direct: batches may even differ in vocabulary size) ---- *)
Lemma px_fold ig : forall bs s, Forall (fun b => List.length (px_rows b) = List.length (px_tgt b)) bs ->
  fold_left (fun s b => px_add s (px_stat ig (px_rows b) (px_tgt b))) bs s
  = px_add s (px_stat ig (flat_map px_rows bs) (flat_map px_tgt bs)).
Proof.
  induction bs as [|b bs IH]; intros s Hl; cbn [fold_left flat_map].
  - symmetry. apply px_add_0_r.
  - inversion Hl; subst. rewrite IH by assumption. rewrite px_stat_app by assumption. rewrite px_add_assoc. reflexivity.
Qed.
Lemma px_class_fn ig bs : Forall (fun b => valid px_metric ig b = true) bs ->
  cmp px_metric ig (fold_left (upd px_metric ig) bs (init px_metric ig))
  = let s := px_stat ig (flat_map px_rows bs) (flat_map px_tgt bs) in if qeq (snd s) 0 then VL [] else px_value s.
Proof.
  intros Hv. change (upd px_metric ig) with (fun s b => px_add s (px_stat ig (px_rows b) (px_tgt b))).
  rewrite px_fold.
  - cbn [init px_metric plain]. rewrite px_add_0_l. reflexivity.
  - eapply Forall_impl; [|exact Hv]. intros b Hb. apply (px_valid_len ig). exact Hb.
Qed.

(* ---- Wasserstein1D ---- *)
Definition w_cat (a b : w_batch) : w_batch :=
  {| wb_x := wb_x a ++ wb_x b; wb_xw := Some (wts (wb_x a) (wb_xw a) ++ wts (wb_x b) (wb_xw b));
     wb_y := wb_y a ++ wb_y b; wb_yw := Some (wts (wb_y a) (wb_yw a) ++ wts (wb_y b) (wb_yw b)) |}.
Lemma wts_pos x w : w_ok x w = true -> forallb (fun a => qlt 0 a) (wts x w) = true /\ List.length (wts x w) = List.length x.
Proof.
  destruct w as [w|]; cbn [w_ok wts].
  - intros H. apply andb_prop in H as [H H3]. apply andb_prop in H as [_ H2]. split; [exact H2|apply Nat.eqb_eq; exact H3].
  - intros _. unfold ones. split; [|apply repeat_length]. induction (List.length x); cbn [repeat forallb]; [reflexivity|].
    rewrite IHn. reflexivity.
Qed.
Lemma nonnil_app {X} (a b : list X) : nonnil a = true -> nonnil (a ++ b) = true.
Proof. destruct a; [discriminate|reflexivity]. Qed.
Lemma w_ok_cat x1 w1 x2 w2 : nonnil x1 = true -> w_ok x1 w1 = true -> w_ok x2 w2 = true ->
  w_ok (x1 ++ x2) (Some (wts x1 w1 ++ wts x2 w2)) = true.
Proof.
  intros Hn H1 H2. destruct (wts_pos _ _ H1) as [P1 L1]. destruct (wts_pos _ _ H2) as [P2 L2]. cbn [w_ok].
  rewrite forallb_app, P1, P2, !app_length, L1, L2, Nat.eqb_refl. cbn [andb]. rewrite !andb_true_r.
  apply nonnil_app. destruct x1; [discriminate|]. destruct (wts (q :: x1) w1); [discriminate|reflexivity].
Qed.
Lemma w_valid_cat a b : w_valid a = true -> w_valid b = true -> w_valid (w_cat a b) = true.
Proof.
  unfold w_valid. intros Ha Hb.
  apply andb_prop in Ha as [Ha A4]. apply andb_prop in Ha as [Ha A3]. apply andb_prop in Ha as [A1 A2].
  apply andb_prop in Hb as [Hb B4]. apply andb_prop in Hb as [Hb B3]. apply andb_prop in Hb as [B1 B2].
  cbn [w_cat wb_x wb_y wb_xw wb_yw]. rewrite (nonnil_app _ _ A1), (nonnil_app _ _ A2), w_ok_cat, w_ok_cat by assumption. reflexivity.
Qed.
Lemma w_class_fn b bs : Forall (fun b => valid w_metric tt b = true) (b :: bs) ->
  let B := bconcat1 w_metric w_cat b bs in
  cmp w_metric tt (fold_left (upd w_metric tt) (b :: bs) (init w_metric tt))
  = Some (wass (wb_x B) (wts (wb_x B) (wb_xw B)) (wb_y B) (wts (wb_y B) (wb_yw B))).
Proof.
  intros Hv B.
  rewrite (class_eq_functional_nonempty w_metric wasserstein_alg tt w_cat (fun _ _ _ _ => eq_refl) w_valid_cat b bs Hv).
  destruct (bconcat1_spec w_metric wasserstein_alg tt w_cat (fun _ _ _ _ => eq_refl) w_valid_cat bs b Hv) as [HB _].
  fold B in HB |- *. cbn [valid w_metric plain] in HB. cbn [gamma beta wasserstein_alg]. unfold w_gamma, w_beta.
  unfold w_valid in HB. apply andb_prop in HB as [HB H4]. apply andb_prop in HB as [HB H3]. apply andb_prop in HB as [H1 H2].
  pose proof (wts_ne _ _ (nonnil_ne _ H1) H3) as N3. pose proof (wts_ne _ _ (nonnil_ne _ H2) H4) as N4.
  destruct (wb_x B); [discriminate|]. destruct (wb_y B); [discriminate|].
  destruct (wts (q :: l) (wb_xw B)); [congruence|]. destruct (wts (q0 :: l0) (wb_yw B)); [congruence|]. reflexivity.
Qed.

(* ---- PeakSignalNoiseRatio ---- *)
Definition p_cat (a b : list Qc * list Qc) : list Qc * list Qc := (fst a ++ fst b, snd a ++ snd b).
Lemma qofnat_add a b : qofnat (a + b) = qofnat a + qofnat b.
Proof. induction a as [|a IH]; [cbn [Nat.add]; rewrite qofnat_0; ring|]. cbn [Nat.add]. rewrite !qofnat_S, IH. ring. Qed.
Lemma map2_app {X Y Z} (f : X -> Y -> Z) : forall a1 b1 a2 b2, List.length a1 = List.length b1 ->
  map2 f (a1 ++ a2) (b1 ++ b2) = map2 f a1 b1 ++ map2 f a2 b2.
Proof. induction a1 as [|x a1 IH]; intros [|y b1] a2 b2 H; try discriminate; cbn [app map2]; [reflexivity|]. rewrite IH by (injection H; auto). reflexivity. Qed.
Lemma fold_qmin_out : forall r a b, fold_left qmin r (qmin a b) = qmin a (fold_left qmin r b).
Proof. induction r as [|x r IH]; intros a b; cbn [fold_left]; [reflexivity|]. rewrite <- qmin_assoc. apply IH. Qed.
Lemma fold_qmax_out : forall r a b, fold_left qmax r (qmax a b) = qmax a (fold_left qmax r b).
Proof. induction r as [|x r IH]; intros a b; cbn [fold_left]; [reflexivity|]. rewrite <- qmax_assoc. apply IH. Qed.
Lemma bmin_app t1 t2 : t1 <> [] -> t2 <> [] -> bmin (t1 ++ t2) = xmin (bmin t1) (bmin t2).
Proof.
  destruct t1 as [|a r]; [congruence|]. destruct t2 as [|b r']; [congruence|]. intros _ _. cbn [app bmin xmin]. f_equal.
  rewrite fold_left_app. cbn [fold_left]. apply fold_qmin_out.
Qed.
Lemma bmax_app t1 t2 : t1 <> [] -> t2 <> [] -> bmax (t1 ++ t2) = xmax (bmax t1) (bmax t2).
Proof.
  destruct t1 as [|a r]; [congruence|]. destruct t2 as [|b r']; [congruence|]. intros _ _. cbn [app bmax xmax]. f_equal.
  rewrite fold_left_app. cbn [fold_left]. apply fold_qmax_out.
Qed.
Lemma p_valid_parts c b : p_valid c b = true ->
  List.length (fst b) = List.length (snd b) /\ (p_auto c = true -> snd b <> []).
Proof.
  unfold p_valid. intros H. apply andb_prop in H as [H1 H2]. split; [apply Nat.eqb_eq; exact H1|].
  intros Ha. rewrite Ha in H2. cbn [negb] in H2. rewrite orb_false_r in H2. apply nonnil_ne. exact H2.
Qed.
Lemma p_beta_cat c a b : p_valid c a = true -> p_valid c b = true -> p_beta c (p_cat a b) = p_op (p_beta c a) (p_beta c b).
Proof.
  intros Ha Hb. destruct (p_valid_parts c a Ha) as [La Na]. destruct (p_valid_parts c b Hb) as [Lb Nb].
  unfold p_beta, p_op, p_cat, p_sse_of. cbn [fst snd]. rewrite app_length, qofnat_add, (map2_app _ _ _ _ _ La), sumQ_app.
  destruct (p_auto c); [rewrite bmin_app, bmax_app by auto|]; reflexivity.
Qed.
Lemma p_valid_cat c a b : p_valid c a = true -> p_valid c b = true -> p_valid c (p_cat a b) = true.
Proof.
  intros Ha Hb. destruct (p_valid_parts c a Ha) as [La Na]. destruct (p_valid_parts c b Hb) as [Lb Nb].
  unfold p_valid, p_cat. cbn [fst snd]. rewrite !app_length, La, Lb, Nat.eqb_refl. cbn [andb].
  destruct (p_auto c); [|apply orb_true_r]. cbn [negb]. rewrite orb_false_r. apply nonnil_app.
  destruct (snd a); [exfalso; apply Na; reflexivity|reflexivity].
Qed.
(* the value the functional model run_psnr_fn computes on a batch *)
Definition psnr_fn (c : option Qc) (b : list Qc * list Qc) : val :=
  let dr := match c with None => xsub (bmax (snd b)) (bmin (snd b)) | Some r => Fin r end in
  ten_log10 (psnr_ratio dr (p_sse_of b) (qofnat (List.length (snd b)))).
Lemma p_class_fn c b bs : Forall (fun b => valid p_metric c b = true) (b :: bs) ->
  cmp p_metric c (fold_left (upd p_metric c) (b :: bs) (init p_metric c)) = psnr_fn c (bconcat1 p_metric p_cat b bs).
Proof.
  intros Hv. rewrite (class_eq_functional_nonempty p_metric psnr_alg c p_cat (p_beta_cat c) (p_valid_cat c) b bs Hv).
  cbn [gamma beta psnr_alg]. unfold p_gamma, p_beta, psnr_fn. destruct c as [r|]; reflexivity.
Qed.

(* ---- the functional entry points (@model ..._fn) compute exactly these functions ---- *)
Lemma run_psnr_fn_is cv bv c b : as_opt as_Q cv = Some c -> as_pair (as_list as_Q) (as_list as_Q) bv = Some b ->
  p_valid c b = true -> snd b <> [] -> run_psnr_fn (VL [cv; bv]) = psnr_fn c b.
Proof.
  intros Hc Hb Hv Hn. unfold run_psnr_fn. rewrite Hc, Hb, Hv. destruct (snd b) eqn:E; [congruence|]. cbn [nonnil is_nil negb andb].
  unfold psnr_fn. rewrite E. reflexivity.
Qed.
Lemma run_wasserstein_fn_is cv bv b : dec_w_batch bv = Some b -> w_valid b = true ->
  run_wasserstein_fn (VL [cv; bv]) = w_out_val (Some (wass (wb_x b) (wts (wb_x b) (wb_xw b)) (wb_y b) (wts (wb_y b) (wb_yw b)))).
Proof. intros Hb Hv. unfold run_wasserstein_fn. rewrite Hb, Hv. reflexivity. Qed.
Lemma run_perplexity_fn_is cv bv ig b : as_opt as_Z cv = Some ig -> dec_px_batch bv = Some b -> px_valid ig b = true ->
  run_perplexity_fn (VL [cv; bv]) = let s := px_stat ig (px_rows b) (px_tgt b) in if qeq (snd s) 0 then vnone else px_value s.
Proof. intros Hc Hb Hv. unfold run_perplexity_fn. rewrite Hc, Hb, Hv. reflexivity. Qed.
