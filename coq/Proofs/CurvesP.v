(* Lemmas for the curve metrics (port of design-probes AurocCore / AurocFull / PrCurve /
   MaskedScatter to Qc weights and to the framework's models). *)
From Coq Require Import ZArith List Bool QArith Qcanon Lia Sorted Permutation.
From TE Require Import Base.Val Base.Nd Base.Xq Models.Curves.
Import ListNotations.
Open Scope Qc_scope.
Open Scope list_scope.

(* ------------------------------------------------------------------------------------------ *)
(* sums                                                                                       *)
(* ------------------------------------------------------------------------------------------ *)
Ltac qring := unfold two; ring.
Definition sumf {A} (f : A -> Qc) (l : list A) : Qc := sumq (map f l).
Lemma sumf_cons {A} (f : A -> Qc) x l : sumf f (x :: l) = f x + sumf f l.
Proof. reflexivity. Qed.
Lemma sumf_nil {A} (f : A -> Qc) : sumf f [] = 0.
Proof. reflexivity. Qed.
Lemma sumf_add {A} (f g : A -> Qc) l : sumf (fun x => f x + g x) l = sumf f l + sumf g l.
Proof. induction l as [|x l IH]; [rewrite !sumf_nil; qring|]. rewrite !sumf_cons, IH. qring. Qed.
Lemma sumf_ext_in {A} (f g : A -> Qc) l : (forall x, In x l -> f x = g x) -> sumf f l = sumf g l.
Proof.
  induction l as [|x l IH]; intros H; [reflexivity|]. rewrite !sumf_cons, H, IH; [reflexivity| |left; reflexivity].
  intros y Hy. apply H. right. exact Hy.
Qed.
Lemma sumf_scale {A} (c : Qc) (f : A -> Qc) l : sumf (fun x => c * f x) l = c * sumf f l.
Proof. induction l as [|x l IH]; [rewrite !sumf_nil; qring|]. rewrite !sumf_cons, IH. qring. Qed.
Lemma sumf_perm {A} (f : A -> Qc) l l' : Permutation l l' -> sumf f l = sumf f l'.
Proof.
  induction 1 as [| x l l' _ IH | x y l | l1 l2 l3 _ IH1 _ IH2].
  - reflexivity.
  - rewrite !sumf_cons, IH. reflexivity.
  - rewrite !sumf_cons. qring.
  - rewrite IH1. exact IH2.
Qed.
Lemma sumf_zero {A} (f : A -> Qc) l : (forall x, In x l -> f x = 0) -> sumf f l = 0.
Proof.
  induction l as [|x l IH]; intros H; [reflexivity|]. rewrite sumf_cons, H, IH; [qring| |left; reflexivity].
  intros y Hy. apply H. right. exact Hy.
Qed.

Lemma two_half : two * half = 1.
Proof. apply Qc_is_canon. reflexivity. Qed.
Lemma two_neq0 : two <> 0.
Proof. intros H. apply (f_equal (fun q => Qnum (this q))) in H. discriminate H. Qed.

(* ------------------------------------------------------------------------------------------ *)
(* running sums at the end of every run of equal scores                                       *)
(* ------------------------------------------------------------------------------------------ *)
Fixpoint collapse (aP aN : Qc) (l : list sample) : list (Qc * Qc) :=
  match l with
  | [] => []
  | x :: r =>
      match r with
      | [] => [(aP + pw x, aN + nw x)]
      | y :: _ => if (sc x =? sc y)%Z then collapse (aP + pw x) (aN + nw x) r
                  else (aP + pw x, aN + nw x) :: collapse (aP + pw x) (aN + nw x) r
      end
  end.
Definition area2 (l : list sample) := trapz2 ((0, 0) :: collapse 0 0 l).

(* groups of equal adjacent scores: (score, P_g, N_g) *)
Fixpoint groups (l : list sample) : list (Z * (Qc * Qc)) :=
  match l with
  | [] => []
  | x :: r =>
      match groups r with
      | (s, (P, N)) :: gs => if (sc x =? s)%Z then (s, (P + pw x, N + nw x)) :: gs
                             else (sc x, (pw x, nw x)) :: (s, (P, N)) :: gs
      | [] => [(sc x, (pw x, nw x))]
      end
  end.
Fixpoint scan (aP aN : Qc) (gs : list (Z * (Qc * Qc))) : list (Qc * Qc) :=
  match gs with
  | [] => []
  | (_, (P, N)) :: r => (aP + P, aN + N) :: scan (aP + P) (aN + N) r
  end.

Lemma groups_head_score x r : exists P N gs, groups (x :: r) = (sc x, (P, N)) :: gs.
Proof.
  simpl. destruct (groups r) as [|[s [P N]] gs]; [eauto|].
  destruct (Z.eqb_spec (sc x) s); subst; eauto.
Qed.
Lemma groups_cons x r : groups (x :: r) =
  match groups r with
  | (s, (P, N)) :: gs => if (sc x =? s)%Z then (s, (P + pw x, N + nw x)) :: gs
                         else (sc x, (pw x, nw x)) :: (s, (P, N)) :: gs
  | [] => [(sc x, (pw x, nw x))]
  end.
Proof. reflexivity. Qed.
Lemma collapse_cons2 aP aN x y r : collapse aP aN (x :: y :: r) =
  if (sc x =? sc y)%Z then collapse (aP + pw x) (aN + nw x) (y :: r)
  else (aP + pw x, aN + nw x) :: collapse (aP + pw x) (aN + nw x) (y :: r).
Proof. reflexivity. Qed.
Lemma scan_cons aP aN s P N r : scan aP aN ((s, (P, N)) :: r) = (aP + P, aN + N) :: scan (aP + P) (aN + N) r.
Proof. reflexivity. Qed.

Lemma collapse_scan : forall l aP aN, collapse aP aN l = scan aP aN (groups l).
Proof.
  induction l as [|x r IH]; intros aP aN; [reflexivity|].
  destruct r as [|y r'].
  - reflexivity.
  - rewrite collapse_cons2, (groups_cons x (y :: r')).
    destruct (groups_head_score y r') as (P & N & gs & Hg).
    rewrite !IH, Hg.
    destruct (Z.eqb_spec (sc x) (sc y)) as [E|E].
    + rewrite !scan_cons.
      replace (aP + pw x + P) with (aP + (P + pw x)) by qring.
      replace (aN + nw x + N) with (aN + (N + nw x)) by qring. reflexivity.
    + rewrite !scan_cons. reflexivity.
Qed.

(* closed form of the trapezoid over prefix sums *)
Fixpoint G (aP : Qc) (gs : list (Z * (Qc * Qc))) : Qc :=
  match gs with
  | [] => 0
  | (_, (P, N)) :: r => N * (two * aP + P) + G (aP + P) r
  end.
Lemma G_cons aP s P N r : G aP ((s, (P, N)) :: r) = N * (two * aP + P) + G (aP + P) r.
Proof. reflexivity. Qed.
Lemma trapz2_cons2 a b r : trapz2 (a :: b :: r) = (snd b - snd a) * (fst a + fst b) + trapz2 (b :: r).
Proof. reflexivity. Qed.
Lemma trapz2_scan : forall gs aP aN, trapz2 ((aP, aN) :: scan aP aN gs) = G aP gs.
Proof.
  induction gs as [|[s [P N]] r IH]; intros aP aN; [reflexivity|].
  rewrite scan_cons, G_cons, trapz2_cons2, IH. cbn [fst snd]. unfold two. qring.
Qed.

(* pairwise statistic, doubled: 2*[s_b < s_a] + [s_b = s_a], weighted *)
Definition kern2 (a b : sample) : Qc :=
  pw a * nw b * (if (sc b <? sc a)%Z then two else if (sc b =? sc a)%Z then 1 else 0).
Definition U2 (l : list sample) : Qc := sumf (fun a => sumf (kern2 a) l) l.
Definition Ntot (l : list sample) := sumf nw l.
Definition Neq (t : Z) (l : list sample) := sumf (fun b => if (sc b =? t)%Z then nw b else 0) l.
Definition Peq (t : Z) (l : list sample) := sumf (fun b => if (sc b =? t)%Z then pw b else 0) l.
Definition desc (l : list sample) := StronglySorted (fun a b => (sc b <= sc a)%Z) l.

Lemma U2_cons x r : Forall (fun b => (sc b <= sc x)%Z) r ->
  U2 (x :: r) = U2 r + pw x * (two * Ntot r - Neq (sc x) r) + nw x * Peq (sc x) r + pw x * nw x.
Proof.
  intros Hle. unfold U2. rewrite !sumf_cons.
  assert (Hxx : kern2 x x = pw x * nw x).
  { unfold kern2. rewrite Z.ltb_irrefl, Z.eqb_refl. qring. }
  assert (Hxr : sumf (kern2 x) r = pw x * (two * Ntot r - Neq (sc x) r)).
  { unfold Ntot, Neq. clear Hxx. induction r as [|b r IH]; [rewrite !sumf_nil; qring|].
    inversion Hle as [|? ? Hb Hr]; subst. rewrite !sumf_cons, IH by assumption.
    unfold kern2. destruct (Z.ltb_spec (sc b) (sc x)); destruct (Z.eqb_spec (sc b) (sc x)); try (exfalso; lia); qring. }
  assert (Hrx : sumf (fun a => sumf (kern2 a) (x :: r)) r
                = nw x * Peq (sc x) r + sumf (fun a => sumf (kern2 a) r) r).
  { rewrite (sumf_ext_in _ (fun a => kern2 a x + sumf (kern2 a) r)) by (intros; apply sumf_cons).
    rewrite sumf_add. f_equal. unfold Peq. clear Hxx Hxr.
    induction r as [|a r IH]; [rewrite !sumf_nil; qring|].
    inversion Hle as [|? ? Ha Hr]; subst. rewrite !sumf_cons, IH by assumption.
    unfold kern2. destruct (Z.ltb_spec (sc x) (sc a)); destruct (Z.eqb_spec (sc x) (sc a));
      destruct (Z.eqb_spec (sc a) (sc x)); try (exfalso; lia); qring. }
  rewrite Hxx, Hxr, Hrx. qring.
Qed.

Lemma eq_gt_zero t r : Forall (fun b => (sc b < t)%Z) r -> Peq t r = 0 /\ Neq t r = 0.
Proof.
  unfold Peq, Neq. induction r as [|b r IH]; intros H; [split; reflexivity|].
  inversion H as [|? ? Hb Hr]; subst. rewrite !sumf_cons.
  destruct (IH Hr) as [-> ->]. destruct (Z.eqb_spec (sc b) t); [lia|]. split; qring.
Qed.
Lemma desc_head_max x r : desc (x :: r) -> Forall (fun b => (sc b <= sc x)%Z) r.
Proof. intros H; inversion H; assumption. Qed.
Lemma desc_tail x r : desc (x :: r) -> desc r.
Proof. intros H; inversion H; assumption. Qed.
Lemma groups_nil_inv r : groups r = [] -> r = [].
Proof. destruct r as [|y r']; [reflexivity|]. destruct (groups_head_score y r') as (?&?&?&E). congruence. Qed.
Lemma groups_head_inv r s P N gs : groups r = (s, (P, N)) :: gs -> exists y r', r = y :: r' /\ s = sc y.
Proof.
  destruct r as [|y r']; [discriminate|]. destruct (groups_head_score y r') as (?&?&?&E).
  intros H. rewrite E in H. inversion H; subst. eauto.
Qed.
Lemma desc_strict_tail x y r' : desc (x :: y :: r') -> sc x <> sc y -> Forall (fun b => (sc b < sc x)%Z) (y :: r').
Proof.
  intros Hd E. pose proof (desc_head_max _ _ Hd) as Hmax. pose proof (desc_head_max _ _ (desc_tail _ _ Hd)) as Hy.
  inversion Hmax as [|? ? Hyx _]; subst. constructor; [lia|].
  eapply Forall_impl; [|exact Hy]. cbn beta. intros; lia.
Qed.

Lemma eq_head_group : forall r, desc r ->
  match groups r with
  | (s, (P, N)) :: _ => Peq s r = P /\ Neq s r = N
  | [] => True
  end.
Proof.
  induction r as [|x r IH]; intros Hd; [exact I|].
  pose proof (desc_head_max _ _ Hd) as Hmax.
  pose proof (desc_tail _ _ Hd) as Hd'. specialize (IH Hd').
  rewrite groups_cons. unfold Peq, Neq in *.
  destruct (groups r) as [|[s [P N]] gs] eqn:Hg.
  - apply groups_nil_inv in Hg; subst r. rewrite !sumf_cons, !sumf_nil.
    rewrite Z.eqb_refl. split; qring.
  - destruct (Z.eqb_spec (sc x) s) as [E|E].
    + rewrite !sumf_cons. destruct IH as [-> ->]. destruct (Z.eqb_spec (sc x) s); [|lia]. split; qring.
    + rewrite !sumf_cons, Z.eqb_refl.
      destruct (groups_head_inv _ _ _ _ _ Hg) as (y & r' & -> & ->).
      destruct (eq_gt_zero _ _ (desc_strict_tail _ _ _ Hd E)) as [H1 H2]. unfold Peq, Neq in H1, H2.
      rewrite H1, H2. split; qring.
Qed.

Definition Nsum (gs : list (Z * (Qc * Qc))) := sumf (fun g => snd (snd g)) gs.
Lemma Ntot_groups r : Ntot r = Nsum (groups r).
Proof.
  unfold Ntot, Nsum. induction r as [|x r IH]; [reflexivity|].
  rewrite groups_cons, sumf_cons, IH. destruct (groups r) as [|[s [P N]] gs]; [rewrite !sumf_cons, !sumf_nil; cbn [fst snd]; qring|].
  destruct (sc x =? s)%Z; rewrite !sumf_cons; cbn [fst snd]; qring.
Qed.
Lemma G_shift : forall gs a p, G (a + p) gs = G a gs + two * p * Nsum gs.
Proof.
  unfold Nsum. induction gs as [|[s [P N]] r IH]; intros a p; [rewrite sumf_nil; cbn [G]; qring|].
  rewrite !G_cons, sumf_cons. cbn [fst snd].
  replace (a + p + P) with ((a + P) + p) by qring. rewrite IH. qring.
Qed.

Theorem U2_groups : forall l, desc l -> U2 l = G 0 (groups l).
Proof.
  induction l as [|x r IH]; intros Hd; [reflexivity|].
  pose proof (desc_head_max _ _ Hd) as Hmax.
  pose proof (desc_tail _ _ Hd) as Hd'.
  rewrite (U2_cons x r Hmax), (IH Hd'), groups_cons, Ntot_groups.
  pose proof (eq_head_group r Hd') as Hh.
  destruct (groups r) as [|[s [P N]] gs] eqn:Hg.
  - apply groups_nil_inv in Hg; subst r. unfold Nsum, Neq, Peq. rewrite G_cons, !sumf_nil. cbn [G]. qring.
  - destruct Hh as [HP HN].
    destruct (Z.eqb_spec (sc x) s) as [E|E].
    + subst s. rewrite HP, HN. unfold Nsum. rewrite sumf_cons, !G_cons. cbn [fst snd].
      replace (0 + (P + pw x)) with ((0 + P) + pw x) by qring. rewrite (G_shift gs (0 + P) (pw x)). unfold Nsum. qring.
    + destruct (groups_head_inv _ _ _ _ _ Hg) as (y & r' & -> & ->).
      destruct (eq_gt_zero _ _ (desc_strict_tail _ _ _ Hd E)) as [-> ->].
      rewrite (G_cons 0 (sc x)).
      rewrite (G_shift ((sc y, (P, N)) :: gs) 0 (pw x)). qring.
Qed.

Theorem area2_pairwise : forall l, desc l -> area2 l = U2 l.
Proof.
  intros l Hd. unfold area2. rewrite collapse_scan, trapz2_scan. symmetry. apply U2_groups, Hd.
Qed.

(* ------------------------------------------------------------------------------------------ *)
(* the torch pipeline of one row: mask, cumsum, select, left zero padding, trapezoid          *)
(* ------------------------------------------------------------------------------------------ *)
Definition torch_points (l : list sample) : list (Qc * Qc) :=
  let m := mask (map sc l) in
  let n := List.length l in
  combine (leftpad n (select m (cumsum 0 (map pw l)))) (leftpad n (select m (cumsum 0 (map nw l)))).

Lemma mask_cons2 x y r : mask (x :: y :: r) = negb (x =? y)%Z :: mask (y :: r).
Proof. reflexivity. Qed.
Lemma cumsum_cons acc x r : cumsum acc (x :: r) = (acc + x) :: cumsum (acc + x) r.
Proof. reflexivity. Qed.
Lemma select_cons {A} b m (x : A) l : select (b :: m) (x :: l) = if b then x :: select m l else select m l.
Proof. reflexivity. Qed.

Lemma select_collapse : forall l aP aN,
  combine (select (mask (map sc l)) (cumsum aP (map pw l))) (select (mask (map sc l)) (cumsum aN (map nw l)))
  = collapse aP aN l.
Proof.
  induction l as [|x r IH]; intros aP aN; [reflexivity|].
  destruct r as [|y r'].
  - reflexivity.
  - specialize (IH (aP + pw x) (aN + nw x)). cbn [map] in *.
    rewrite mask_cons2, collapse_cons2, (cumsum_cons aP), (cumsum_cons aN), !select_cons.
    destruct (sc x =? sc y)%Z; cbn [negb combine]; rewrite IH; reflexivity.
Qed.

Lemma repeat_snoc {A} (a : A) k : repeat a (S k) = repeat a k ++ [a].
Proof. induction k; cbn; [reflexivity|]. f_equal. exact IHk. Qed.
Lemma trapz2_zeros : forall k pts, trapz2 (repeat (0, 0) k ++ (0, 0) :: pts) = trapz2 ((0, 0) :: pts).
Proof.
  induction k as [|k IH]; intros pts; [reflexivity|].
  cbn [repeat app]. destruct k as [|k'].
  - cbn [repeat app]. rewrite trapz2_cons2. cbn [fst snd]. qring.
  - cbn [repeat app] in *. rewrite trapz2_cons2. cbn [fst snd]. rewrite IH. qring.
Qed.
Lemma combine_app {A B} : forall (a1 : list A) (b1 : list B) a2 b2, List.length a1 = List.length b1 ->
  combine (a1 ++ a2) (b1 ++ b2) = combine a1 b1 ++ combine a2 b2.
Proof.
  induction a1 as [|x a1 IH]; intros [|y b1] a2 b2 H; cbn in *; try lia; [reflexivity|]. f_equal. apply IH. lia.
Qed.
Lemma combine_repeat0 k : combine (repeat (0 : Qc) k) (repeat (0 : Qc) k) = repeat (0, 0) k.
Proof. induction k; cbn; congruence. Qed.
Lemma select_length2 {A B} : forall m (a : list A) (b : list B), List.length a = List.length b ->
  List.length (select m a) = List.length (select m b).
Proof.
  induction m as [|c m IH]; intros [|x a] [|y b] H; cbn in *; try lia. destruct c; cbn; rewrite (IH a b); lia.
Qed.
Lemma cumsum_length : forall l acc, List.length (cumsum acc l) = List.length l.
Proof. induction l; intros; cbn; [reflexivity|]. rewrite IHl. reflexivity. Qed.
Lemma collapse_length_le : forall l aP aN, (List.length (collapse aP aN l) <= List.length l)%nat.
Proof.
  induction l as [|x r IH]; intros; [cbn; lia|]. destruct r as [|y r'].
  - cbn. lia.
  - rewrite collapse_cons2. destruct (sc x =? sc y)%Z; cbn [List.length]; specialize (IH (aP + pw x) (aN + nw x)); cbn [List.length] in *; lia.
Qed.
Lemma collapse_full_first : forall l aP aN, l <> [] -> List.length (collapse aP aN l) = List.length l ->
  exists x r, l = x :: r /\ exists pts, collapse aP aN l = (aP + pw x, aN + nw x) :: pts.
Proof.
  intros [|x r] aP aN Hne Hlen; [congruence|]. exists x, r. split; [reflexivity|].
  destruct r as [|y r']; [eexists; reflexivity|].
  rewrite collapse_cons2 in *. destruct (sc x =? sc y)%Z; [|eexists; reflexivity].
  pose proof (collapse_length_le (y :: r') (aP + pw x) (aN + nw x)). cbn [List.length] in *. lia.
Qed.
Lemma pw_nw_zero x : pw x * nw x = 0.
Proof. unfold pw, nw. destruct (lab x); qring. Qed.

(* zero padding adds zero-area segments; without padding the missing leading (0,0) costs nothing
   because a sample carries positive weight or negative weight, not both *)
Theorem torch_area : forall l, trapz2 (torch_points l) = area2 l.
Proof.
  intros l. unfold torch_points, area2, leftpad.
  set (m := mask (map sc l)).
  set (cp := select m (cumsum 0 (map pw l))). set (cn := select m (cumsum 0 (map nw l))).
  assert (Hlen : List.length cp = List.length cn).
  { unfold cp, cn. apply select_length2. rewrite !cumsum_length, !map_length. reflexivity. }
  assert (Hz : combine cp cn = collapse 0 0 l) by apply select_collapse.
  rewrite Hlen, combine_app, combine_repeat0, Hz by (rewrite !repeat_length; reflexivity).
  assert (Hcl : List.length (collapse 0 0 l) = List.length cn).
  { rewrite <- Hz, combine_length, Hlen. apply Nat.min_id. }
  destruct (Nat.eq_dec (List.length l - List.length cn) 0) as [E|E].
  - rewrite E. cbn [repeat app].
    destruct l as [|x0 r0]; [reflexivity|].
    pose proof (collapse_length_le (x0 :: r0) 0 0) as Hle.
    destruct (collapse_full_first (x0 :: r0) 0 0 ltac:(discriminate) ltac:(lia)) as (x & r & Hl & pts & Hc).
    inversion Hl; subst x r. rewrite Hc, (trapz2_cons2 (0, 0)). cbn [fst snd].
    pose proof (pw_nw_zero x0) as Hx.
    replace ((0 + nw x0 - 0) * (0 + (0 + pw x0))) with (pw x0 * nw x0) by qring. rewrite Hx. qring.
  - destruct (List.length l - List.length cn)%nat as [|k] eqn:Ek; [congruence|].
    rewrite repeat_snoc, <- app_assoc. cbn [app]. apply trapz2_zeros.
Qed.

Lemma U2_perm l l' : Permutation l l' -> U2 l = U2 l'.
Proof.
  intros H. unfold U2. rewrite (sumf_perm _ _ _ H). apply sumf_ext_in. intros a _. apply sumf_perm, H.
Qed.

(* any admissible descending sort of the input *)
Theorem auroc_numerator_pairwise : forall l l', Permutation l l' -> desc l' -> trapz2 (torch_points l') = U2 l.
Proof.
  intros l l' Hp Hd. rewrite torch_area, area2_pairwise by exact Hd. symmetry. apply U2_perm, Hp.
Qed.

Lemma U2_pair_sum l : U2 l = two * pair_sum l.
Proof.
  unfold U2, pair_sum. fold (sumf (fun a => sumq (map (pair_kern a) l)) l).
  rewrite <- sumf_scale. apply sumf_ext_in. intros a _. fold (sumf (pair_kern a) l).
  rewrite <- sumf_scale. apply sumf_ext_in. intros b _. unfold kern2, pair_kern.
  destruct (sc b <? sc a)%Z; [qring|]. destruct (sc b =? sc a)%Z; [|qring].
  transitivity (pw a * nw b * (two * half)); [rewrite two_half; ring|ring].
Qed.

(* ---- the factor: last elements of the padded cumulative sums are the totals ---- *)
Lemma last_cons_default {A} : forall (s : list A) c d, last (c :: s) d = last s c.
Proof.
  induction s as [|x s IH]; intros c d; [reflexivity|].
  change (last (c :: x :: s) d) with (last (x :: s) d). rewrite !IH. reflexivity.
Qed.
Lemma last_app_default {A} : forall (a b : list A) d, last (a ++ b) d = last b (last a d).
Proof.
  induction a as [|x a IH]; intros b d; [reflexivity|].
  cbn [app]. rewrite last_cons_default, IH, last_cons_default. reflexivity.
Qed.
Lemma last_repeat {A} (a : A) k : last (repeat a k) a = a.
Proof. induction k as [|k IH]; [reflexivity|]. cbn [repeat]. rewrite last_cons_default. exact IH. Qed.
Lemma last_select_cumsum (f : sample -> Qc) : forall l a d, l <> [] ->
  last (select (mask (map sc l)) (cumsum a (map f l))) d = a + sumf f l.
Proof.
  induction l as [|x r IH]; intros a d Hne; [congruence|].
  destruct r as [|y r'].
  - rewrite sumf_cons, sumf_nil. cbn [map mask cumsum select last]. qring.
  - cbn [map] in *. rewrite mask_cons2, cumsum_cons, select_cons, sumf_cons.
    destruct (negb (sc x =? sc y)%Z).
    + rewrite last_cons_default, IH by discriminate. qring.
    + rewrite IH by discriminate. qring.
Qed.
Lemma last_leftpad_total (f : sample -> Qc) l :
  last (leftpad (List.length l) (select (mask (map sc l)) (cumsum 0 (map f l)))) 0 = sumf f l.
Proof.
  unfold leftpad. rewrite last_app_default, last_repeat.
  destruct l as [|x r]; [reflexivity|]. rewrite last_select_cumsum by discriminate. qring.
Qed.

(* C05 item 1 *)
Theorem auroc_row_pairwise : forall l l', Permutation l l' -> desc l' -> auroc_row_sorted l' = auroc_spec l.
Proof.
  intros l l' Hp Hd. unfold auroc_row_sorted, auroc_finish, auroc_spec.
  rewrite !last_leftpad_total. fold (sumf pw l) (sumf nw l).
  rewrite <- (sumf_perm pw _ _ Hp), <- (sumf_perm nw _ _ Hp).
  destruct (Qc_eq_dec (sumf pw l * sumf nw l) 0) as [E|E]; [reflexivity|].
  unfold trapz. fold (torch_points l'). rewrite (auroc_numerator_pairwise l l' Hp Hd), U2_pair_sum.
  f_equal. unfold Qcdiv. rewrite (Qcmult_comm two), <- Qcmult_assoc, Qcmult_inv_r by exact two_neq0. qring.
Qed.

(* the model's merge sort is one admissible order *)
Lemma sort_desc_perm l : Permutation l (sort_desc l).
Proof. apply DS.Permuted_sort. Qed.
Lemma sort_desc_desc l : desc (sort_desc l).
Proof.
  unfold desc, sort_desc.
  assert (Ht : Relations_1.Transitive (fun x y : sample => is_true (DescOrder.leb x y))).
  { intros a b c H1 H2. unfold is_true, DescOrder.leb in *. apply Z.leb_le in H1, H2. apply Z.leb_le. lia. }
  pose proof (DS.StronglySorted_sort l Ht) as H.
  induction H as [|a r Hr IH Ha]; constructor; [assumption|].
  eapply Forall_impl; [|exact Ha]. cbn beta. intros b Hb. unfold is_true, DescOrder.leb in Hb. apply Z.leb_le in Hb. exact Hb.
Qed.
Corollary auroc_row_spec l : auroc_row l = auroc_spec l.
Proof. apply auroc_row_pairwise; [apply sort_desc_perm|apply sort_desc_desc]. Qed.

(* ------------------------------------------------------------------------------------------ *)
(* C16: the flattened masked_scatter_ is row-local (port of design-probes/MaskedScatter.v)    *)
(* ------------------------------------------------------------------------------------------ *)
Lemma select_length {A} : forall m (x : list A), List.length m = List.length x -> List.length (select m x) = count_true m.
Proof.
  unfold count_true. induction m as [|b m IH]; intros [|a x] H; cbn in *; try lia.
  destruct b; cbn; rewrite IH; lia.
Qed.
Lemma scatter_row_app {A} : forall (d : list A) m src rest,
  List.length d = List.length m -> List.length src = count_true m ->
  scatter_row d m (src ++ rest) = (fst (scatter_row d m src), rest).
Proof.
  unfold count_true. induction d as [|x d IH]; intros [|b m] src rest Hl Hs; cbn in *; try lia.
  - destruct src; cbn in *; [reflexivity|lia].
  - destruct b; cbn [filter List.length] in Hs.
    + destruct src as [|s src]; cbn in Hs; [lia|]. cbn [app].
      rewrite (IH m src rest) by lia. destruct (scatter_row d m src). reflexivity.
    + rewrite (IH m src rest) by lia. destruct (scatter_row d m src). reflexivity.
Qed.
Fixpoint map3 {A} (f : list A -> list bool -> list A -> list A) (D : list (list A)) (M : list (list bool)) (S : list (list A)) :=
  match D, M, S with d :: D', m :: M', s :: S' => f d m s :: map3 f D' M' S' | _, _, _ => [] end.

Theorem masked_scatter_rowlocal_gen {A} : forall (D X : list (list A)) (M M' : list (list bool)),
  List.length D = List.length X -> List.length M = List.length X -> List.length M' = List.length X ->
  Forall2 (fun d m' => List.length d = List.length m') D M' ->
  Forall2 (fun m x => List.length m = List.length x) M X ->
  Forall2 (fun m m' => count_true m = count_true m') M M' ->
  scatter2 D M' (select2 M X)
  = map3 (fun d m' sel => fst (scatter_row d m' sel)) D M' (map (fun mx => select (fst mx) (snd mx)) (combine M X)).
Proof.
  induction D as [|d D IH]; intros X M M' HD HM HM' Hdm Hmx Hcnt.
  - destruct X; cbn in *; [|lia]. destruct M; cbn in *; [|lia]. destruct M'; cbn in *; [reflexivity|lia].
  - destruct X as [|x X]; cbn in HD; [lia|]. destruct M as [|m M]; cbn in HM; [lia|].
    destruct M' as [|m' M']; cbn in HM'; [lia|].
    inversion Hdm; subst. inversion Hmx; subst. inversion Hcnt; subst.
    cbn [select2 scatter2 combine map map3 fst snd].
    rewrite scatter_row_app by (try assumption; rewrite select_length by assumption; assumption).
    f_equal. apply IH; auto; lia.
Qed.

Lemma scatter_right_aligned {A} : forall (k : nat) (sel : list A) (z : list A),
  List.length z = (k + List.length sel)%nat ->
  fst (scatter_row z (repeat false k ++ repeat true (List.length sel)) sel) = firstn k z ++ sel.
Proof.
  induction k as [|k IH]; intros sel z Hz.
  - cbn [repeat app firstn]. revert z Hz. induction sel as [|s sel IHs]; intros z Hz; cbn in *.
    + destruct z; [reflexivity|cbn in Hz; lia].
    + destruct z as [|x z]; cbn in Hz; [lia|]. cbn. specialize (IHs z ltac:(lia)).
      destruct (scatter_row z (repeat true (List.length sel)) sel). cbn in *. congruence.
  - destruct z as [|x z]; cbn in Hz; [lia|]. cbn [repeat app scatter_row firstn].
    specialize (IH sel z ltac:(lia)). destruct (scatter_row z _ sel). cbn in *. congruence.
Qed.

Lemma shifted_S n k : shifted (S n) k = Nat.leb (S n) k :: shifted n k.
Proof. unfold shifted. rewrite seq_S, rev_app_distr. reflexivity. Qed.
Lemma shifted_repeat : forall n k, shifted n k = repeat false (n - k) ++ repeat true (Nat.min n k).
Proof.
  induction n as [|n IH]; intros k; [reflexivity|].
  rewrite shifted_S, IH. destruct (Nat.leb_spec (S n) k) as [H|H].
  - replace (n - k)%nat with 0%nat by lia. replace (S n - k)%nat with 0%nat by lia.
    replace (Nat.min n k) with n by lia. replace (Nat.min (S n) k) with (S n) by lia. reflexivity.
  - replace (S n - k)%nat with (S (n - k)) by lia. replace (Nat.min (S n) k) with (Nat.min n k) by lia. reflexivity.
Qed.
Lemma firstn_repeat_le {A} (a : A) : forall k n, (k <= n)%nat -> firstn k (repeat a n) = repeat a k.
Proof.
  induction k as [|k IH]; intros n H; [reflexivity|]. destruct n as [|n]; [lia|]. cbn. f_equal. apply IH. lia.
Qed.
Lemma mask_length : forall l, List.length (mask l) = List.length l.
Proof.
  induction l as [|x r IH]; [reflexivity|]. destruct r as [|y r']; [reflexivity|].
  rewrite mask_cons2. cbn [List.length] in *. rewrite IH. reflexivity.
Qed.
Lemma count_true_le m : (count_true m <= List.length m)%nat.
Proof. unfold count_true. induction m as [|b m IH]; cbn; [lia|]. destruct b; cbn; lia. Qed.

(* one row of the scatter: left zero padding *)
Lemma scatter_row_leftpad (r : list sample) (f : sample -> Qc) :
  let m := mask (map sc r) in
  fst (scatter_row (repeat 0 (List.length r)) (shifted (List.length m) (count_true m)) (select m (cumsum 0 (map f r))))
  = leftpad (List.length r) (select m (cumsum 0 (map f r))).
Proof.
  intros m. set (sel := select m (cumsum 0 (map f r))).
  assert (Hm : List.length m = List.length r) by (unfold m; rewrite mask_length, map_length; reflexivity).
  assert (Hs : List.length sel = count_true m).
  { unfold sel. apply select_length. rewrite cumsum_length, map_length. exact Hm. }
  pose proof (count_true_le m) as Hle.
  rewrite shifted_repeat, Hm. replace (Nat.min (List.length r) (count_true m)) with (List.length sel) by lia.
  rewrite <- Hs. rewrite scatter_right_aligned by (rewrite repeat_length; lia).
  rewrite firstn_repeat_le by lia. reflexivity.
Qed.

Lemma scatter2_rows (f : sample -> Qc) : forall R : list (list sample),
  scatter2 (map (fun r => repeat (0 : Qc) (List.length r)) R)
           (map (fun m => shifted (List.length m) (count_true m)) (map (fun r => mask (map sc r)) R))
           (select2 (map (fun r => mask (map sc r)) R) (map (fun r => cumsum 0 (map f r)) R))
  = map (fun r => leftpad (List.length r) (select (mask (map sc r)) (cumsum 0 (map f r)))) R.
Proof.
  induction R as [|r R IH]; [reflexivity|].
  cbn [map select2 scatter2].
  rewrite scatter_row_app.
  - rewrite IH. f_equal. apply scatter_row_leftpad.
  - rewrite repeat_length. unfold shifted. rewrite map_length, rev_length, seq_length, mask_length, map_length. reflexivity.
  - rewrite select_length by (rewrite mask_length, cumsum_length, !map_length; reflexivity).
    rewrite shifted_repeat. unfold count_true at 2. rewrite filter_app, app_length.
    pose proof (count_true_le (mask (map sc r))) as Hle.
    assert (Hf : forall k, List.length (filter (fun b : bool => b) (repeat false k)) = 0%nat) by (induction k; cbn; auto).
    assert (Ht : forall k, List.length (filter (fun b : bool => b) (repeat true k)) = k) by (induction k; cbn; auto).
    rewrite Hf, Ht. lia.
Qed.

Lemma map2_map_map {X Y Z W} (f : Y -> Z -> W) (g : X -> Y) (h : X -> Z) (l : list X) :
  map2 f (map g l) (map h l) = map (fun x => f (g x) (h x)) l.
Proof. induction l as [|x l IH]; cbn; [reflexivity|]. rewrite IH. reflexivity. Qed.

(* the 2-D AUROC kernel = row-wise map of the 1-D algorithm *)
Theorem auroc_kernel_rowwise_sorted : forall R, auroc_kernel_sorted R = map auroc_row_sorted R.
Proof.
  intros R. unfold auroc_kernel_sorted. rewrite !scatter2_rows, map2_map_map. reflexivity.
Qed.
Theorem auroc_kernel_rowwise : forall R, auroc_kernel R = map auroc_row R.
Proof. intros R. unfold auroc_kernel. rewrite auroc_kernel_rowwise_sorted, map_map. reflexivity. Qed.
Theorem auroc_kernel_spec : forall R, auroc_kernel R = map auroc_spec R.
Proof. intros R. rewrite auroc_kernel_rowwise. apply map_ext. intros r. apply auroc_row_spec. Qed.

(* every admissible order, all rows *)
Definition sorted_version (r r' : list sample) : Prop := Permutation r r' /\ desc r'.
Theorem auroc_kernel_any_sort : forall R R', Forall2 sorted_version R R' -> auroc_kernel_sorted R' = map auroc_spec R.
Proof.
  intros R R' H. rewrite auroc_kernel_rowwise_sorted.
  induction H as [|r r' R R' [Hp Hd] _ IH]; [reflexivity|]. cbn [map]. rewrite IH, (auroc_row_pairwise r r' Hp Hd). reflexivity.
Qed.

Theorem bauroc_algo_spec : forall nt cols, bauroc_algo nt cols = bauroc_spec nt cols.
Proof. intros nt [|c cols]; [reflexivity|]. unfold bauroc_algo, bauroc_spec. rewrite auroc_kernel_spec. reflexivity. Qed.
Theorem mcauroc_algo_spec : forall C macro l, mcauroc_algo C macro l = mcauroc_spec C macro l.
Proof. intros C macro [|s l]; [reflexivity|]. unfold mcauroc_algo, mcauroc_spec. rewrite auroc_kernel_spec. reflexivity. Qed.

(* order-insensitivity of the spec, hence of compute *)
Lemma pair_sum_perm l l' : Permutation l l' -> pair_sum l = pair_sum l'.
Proof.
  intros H. unfold pair_sum. change (sumf (fun a => sumf (pair_kern a) l) l = sumf (fun a => sumf (pair_kern a) l') l').
  rewrite (sumf_perm _ _ _ H). apply sumf_ext_in. intros a _. apply sumf_perm, H.
Qed.
Lemma auroc_spec_perm l l' : Permutation l l' -> auroc_spec l = auroc_spec l'.
Proof.
  intros H. unfold auroc_spec. change (sumq (map pw l)) with (sumf pw l). change (sumq (map nw l)) with (sumf nw l).
  change (sumq (map pw l')) with (sumf pw l'). change (sumq (map nw l')) with (sumf nw l').
  rewrite (sumf_perm pw _ _ H), (sumf_perm nw _ _ H), (pair_sum_perm _ _ H). reflexivity.
Qed.

(* ------------------------------------------------------------------------------------------ *)
(* C01: cache family -- a merge tree computes on the concatenation of its in-order stream     *)
(* ------------------------------------------------------------------------------------------ *)
From TE Require Import Algebra.Metric Algebra.MergeTree Algebra.Cache.
Lemma fold_left_app_concat {X} : forall (l : list (list X)) a, fold_left (@app X) l a = a ++ List.concat l.
Proof.
  induction l as [|x l IH]; intros a; cbn [fold_left List.concat]; [rewrite app_nil_r; reflexivity|].
  rewrite IH, app_assoc. reflexivity.
Qed.
Theorem list_cache_merge_tree (C S O : Type) (vld : C -> list S -> bool) (f : C -> list S -> O) :
  let K := list_cache C S O vld f in
  forall (c : C) (t : mtree (cache_metric K)),
    Forall (fun b => vld c b = true) (stream (cache_metric K) t) ->
    cmp (cache_metric K) c (run (cache_metric K) c t) = f c (List.concat (stream (cache_metric K) t)).
Proof.
  intros K c t Hv.
  rewrite (merge_tree_compute (cache_metric K) (cache_alg K) c t Hv).
  cbn [gamma cache_alg cfun K list_cache]. f_equal. unfold prod. cbn [op e beta cache_alg csamples K list_cache].
  rewrite map_id. exact (fold_left_app_concat (X:=S) _ []).
Qed.

Lemma task_rows_perm nt cols cols' : Permutation cols cols' ->
  Forall2 (fun r r' => Permutation r r') (task_rows nt cols) (task_rows nt cols').
Proof.
  intros H. unfold task_rows. induction (seq 0 nt) as [|i s IH]; cbn [map]; constructor; [|exact IH].
  apply Permutation_map, H.
Qed.
Theorem bauroc_spec_perm nt cols cols' : Permutation cols cols' -> bauroc_spec nt cols = bauroc_spec nt cols'.
Proof.
  intros H. destruct cols as [|c cols].
  - apply Permutation_nil in H. subst. reflexivity.
  - destruct cols' as [|c' cols']; [apply Permutation_sym, Permutation_nil in H; discriminate|].
    unfold bauroc_spec.
    assert (E : map auroc_spec (task_rows nt (c :: cols)) = map auroc_spec (task_rows nt (c' :: cols'))).
    { pose proof (task_rows_perm nt _ _ H) as HF. induction HF as [|r r' R R' Hr _ IH]; [reflexivity|].
      cbn [map]. rewrite IH, (auroc_spec_perm _ _ Hr). reflexivity. }
    rewrite E. reflexivity.
Qed.
Theorem bauroc_algo_perm nt cols cols' : Permutation cols cols' -> bauroc_algo nt cols = bauroc_algo nt cols'.
Proof. intros H. rewrite !bauroc_algo_spec. apply bauroc_spec_perm, H. Qed.
Lemma ovr_rows_perm C l l' : Permutation l l' -> Forall2 (fun r r' => Permutation r r') (ovr_rows C l) (ovr_rows C l').
Proof.
  intros H. unfold ovr_rows. induction (seq 0 C) as [|i s IH]; cbn [map]; constructor; [|exact IH].
  apply Permutation_map, H.
Qed.
Theorem mcauroc_algo_perm C macro l l' : Permutation l l' -> mcauroc_algo C macro l = mcauroc_algo C macro l'.
Proof.
  intros H. rewrite !mcauroc_algo_spec. destruct l as [|s l].
  - apply Permutation_nil in H. subst. reflexivity.
  - destruct l' as [|s' l']; [apply Permutation_sym, Permutation_nil in H; discriminate|].
    unfold mcauroc_spec.
    assert (E : map auroc_spec (ovr_rows C (s :: l)) = map auroc_spec (ovr_rows C (s' :: l'))).
    { pose proof (ovr_rows_perm C _ _ H) as HF. induction HF as [|r r' R R' Hr _ IH]; [reflexivity|].
      cbn [map]. rewrite IH, (auroc_spec_perm _ _ Hr). reflexivity. }
    rewrite E. reflexivity.
Qed.

Theorem bauroc_any_order : forall c t t',
  Forall (fun b => bvalid c b = true) (stream bauroc_metric t) ->
  Forall (fun b => bvalid c b = true) (stream bauroc_metric t') ->
  Permutation (List.concat (stream bauroc_metric t)) (List.concat (stream bauroc_metric t')) ->
  cmp bauroc_metric c (run bauroc_metric c t) = cmp bauroc_metric c (run bauroc_metric c t').
Proof.
  intros c t t' H1 H2 HP.
  etransitivity; [exact (list_cache_merge_tree bcfg bcol (res Qc) bvalid (fun c => bauroc_algo (snd c)) c t H1)|].
  etransitivity; [|symmetry; exact (list_cache_merge_tree bcfg bcol (res Qc) bvalid (fun c => bauroc_algo (snd c)) c t' H2)].
  apply bauroc_algo_perm, HP.
Qed.
Theorem mcauroc_any_order : forall c t t',
  Forall (fun b => mcvalid c b = true) (stream mcauroc_metric t) ->
  Forall (fun b => mcvalid c b = true) (stream mcauroc_metric t') ->
  Permutation (List.concat (stream mcauroc_metric t)) (List.concat (stream mcauroc_metric t')) ->
  cmp mcauroc_metric c (run mcauroc_metric c t) = cmp mcauroc_metric c (run mcauroc_metric c t').
Proof.
  intros c t t' H1 H2 HP.
  etransitivity; [exact (list_cache_merge_tree mcfg mcsample (res Qc) mcvalid (fun c => mcauroc_algo (mnum c) (mmacro c)) c t H1)|].
  etransitivity; [|symmetry; exact (list_cache_merge_tree mcfg mcsample (res Qc) mcvalid (fun c => mcauroc_algo (mnum c) (mmacro c)) c t' H2)].
  apply mcauroc_algo_perm, HP.
Qed.

(* C16: task i of the multi-task result is the single-task algorithm on slice i *)
Theorem bauroc_task_slice : forall nt cols i, cols <> [] -> (i < nt)%nat -> nt <> 1%nat ->
  match bauroc_algo nt cols with
  | Rmany a => nth i a half = auroc_row (map (fun col => nth i col dsample) cols)
  | _ => False end.
Proof.
  intros nt cols i Hne Hi Hnt. destruct cols as [|c0 cols]; [congruence|]. unfold bauroc_algo.
  destruct (Nat.eqb_spec nt 1) as [E|E]; [congruence|].
  rewrite auroc_kernel_rowwise. unfold task_rows. rewrite map_map.
  rewrite (nth_indep _ half (auroc_row (map (fun col => nth 0 col dsample) (c0 :: cols)))) by (rewrite map_length, seq_length; exact Hi).
  rewrite (map_nth (fun i => auroc_row (map (fun col => nth i col dsample) (c0 :: cols))) (seq 0 nt) 0%nat i).
  rewrite seq_nth by exact Hi. reflexivity.
Qed.
