(* C03 / C12 for the ten curve classes: the class after ANY batching computes the function that the
   `*_fn` model entry points run, applied to the concatenation of the batches; batching invariance;
   order invariance (any permutation of the samples) where algo = spec gives it. *)
From Coq Require Import ZArith List Bool QArith Qcanon Lia Sorted Permutation.
From TE Require Import Base.Val Base.Nd Base.Xq Algebra.Metric Algebra.MergeTree Algebra.Pool Algebra.Cache
  Models.Curves Proofs.CurvesP Proofs.CurvesPR Proofs.CurvesMC.
Import ListNotations.
Open Scope Qc_scope.
Open Scope list_scope.

Section ListCacheFn.
Variables (C S O : Type) (vld : C -> list S -> bool) (f : C -> list S -> O).
Let K := list_cache C S O vld f.
Definition class_run (c : C) (bs : list (list S)) : O :=
  cmp (cache_metric K) c (fold_left (upd (cache_metric K) c) bs (init (cache_metric K) c)).

Lemma class_run_concat c bs : Forall (fun b => vld c b = true) bs -> class_run c bs = f c (List.concat bs).
Proof. intros Hv. exact (list_cache_merge_tree C S O vld f c (Shard (cache_metric K) bs) Hv). Qed.

(* the functional-form entry point on the encoded concatenation = the encoded class result *)
Lemma run_fn_eq_class (dc : val -> option C) (db : C -> val -> option (list S)) (eo : C -> O -> val) cv bv c bs :
  dc cv = Some c -> db c bv = Some (List.concat bs) ->
  Forall (fun b => vld c b = true) bs -> vld c (List.concat bs) = true ->
  run_fn dc db vld f eo (VL [cv; bv]) = eo c (class_run c bs).
Proof.
  intros Hc Hb Hv Hcat. unfold run_fn. rewrite Hc, Hb, Hcat, class_run_concat by exact Hv. reflexivity.
Qed.

Lemma batching_invariant c bs bs' :
  Forall (fun b => vld c b = true) bs -> Forall (fun b => vld c b = true) bs' ->
  List.concat bs = List.concat bs' -> class_run c bs = class_run c bs'.
Proof. intros H1 H2 He. rewrite !class_run_concat by assumption. rewrite He. reflexivity. Qed.

Lemma order_invariant_of c bs bs' :
  (forall l l', Permutation l l' -> f c l = f c l') ->
  Forall (fun b => vld c b = true) bs -> Forall (fun b => vld c b = true) bs' ->
  Permutation (List.concat bs) (List.concat bs') -> class_run c bs = class_run c bs'.
Proof. intros Hp H1 H2 He. rewrite !class_run_concat by assumption. apply Hp, He. Qed.
End ListCacheFn.

(* validity of a concatenation: all four validity predicates are per-sample *)
Lemma forallb_concat {X} (p : X -> bool) : forall bs, Forall (fun b => forallb p b = true) bs -> forallb p (List.concat bs) = true.
Proof.
  induction 1 as [|b bs Hb _ IH]; [reflexivity|]. cbn [List.concat]. rewrite forallb_app, Hb, IH. reflexivity.
Qed.
Lemma bvalid_concat c bs : Forall (fun b => bvalid c b = true) bs -> bvalid c (List.concat bs) = true.
Proof. apply forallb_concat. Qed.
Lemma mcvalid_concat c bs : Forall (fun b => mcvalid c b = true) bs -> mcvalid c (List.concat bs) = true.
Proof. apply forallb_concat. Qed.
Lemma mlvalid_concat c bs : Forall (fun b => mlvalid c b = true) bs -> mlvalid c (List.concat bs) = true.
Proof. apply forallb_concat. Qed.

(* ------------------------------------------------------------------------------------------ *)
(* permutation invariance of the remaining specs / algorithms                                 *)
(* ------------------------------------------------------------------------------------------ *)
Lemma auprc_spec_perm l l' : Permutation l l' -> auprc_spec l = auprc_spec l'.
Proof. intros H. unfold auprc_spec. rewrite (prc_spec_perm _ _ H). reflexivity. Qed.
Lemma rap_spec_perm minp l l' : Permutation l l' -> rap_spec minp l = rap_spec minp l'.
Proof. intros H. unfold rap_spec. rewrite (prc_spec_perm _ _ H). reflexivity. Qed.
Lemma rap_thr_spec_perm den minp l l' : Permutation l l' -> rap_thr_spec den minp l = rap_thr_spec den minp l'.
Proof. intros H. unfold rap_thr_spec. rewrite (prc_spec_perm _ _ H), (rap_spec_perm minp _ _ H). reflexivity. Qed.

Lemma rows_map_perm {X} (g : list sample -> X) : (forall r r', Permutation r r' -> g r = g r') ->
  forall R R', Forall2 (fun r r' => Permutation r r') R R' -> map g R = map g R'.
Proof. intros Hg R R' H. induction H as [|r r' R R' Hr _ IH]; [reflexivity|]. cbn [map]. rewrite IH, (Hg _ _ Hr). reflexivity. Qed.
Lemma label_rows_perm L l l' : Permutation l l' -> Forall2 (fun r r' => Permutation r r') (label_rows L l) (label_rows L l').
Proof.
  intros H. unfold label_rows. induction (seq 0 L) as [|i s IH]; cbn [map]; constructor; [|exact IH].
  apply Permutation_map, H.
Qed.
Lemma perm_nil_cases {X} (l l' : list X) : Permutation l l' -> (l = [] /\ l' = []) \/ (l <> [] /\ l' <> []).
Proof.
  intros H. destruct l as [|x l].
  - apply Permutation_nil in H. left. split; [reflexivity|exact H].
  - right. split; [discriminate|]. intros E. subst l'. apply Permutation_sym, Permutation_nil in H. discriminate.
Qed.
Ltac perm_cases H :=
  let E1 := fresh in let E2 := fresh in
  destruct (perm_nil_cases _ _ H) as [[E1 E2]|[E1 E2]];
  [rewrite E1, E2; reflexivity|].
Lemma wpos_rows_perm R R' : Forall2 (fun r r' => Permutation r r') R R' -> Forall wpos R -> Forall wpos R'.
Proof.
  intros H. induction H as [|r r' R R' Hr _ IH]; intros HW; [constructor|].
  inversion HW; subst. constructor; [eapply wpos_perm; eassumption|apply IH; assumption].
Qed.

Theorem bauprc_algo_perm nt cols cols' : Forall wpos (task_rows nt cols) -> Permutation cols cols' ->
  bauprc_algo nt cols = bauprc_algo nt cols'.
Proof.
  intros Hw H. pose proof (task_rows_perm nt _ _ H) as HR.
  rewrite (bauprc_algo_spec nt cols Hw), (bauprc_algo_spec nt cols' (wpos_rows_perm _ _ HR Hw)).
  perm_cases H. destruct cols as [|c0 cols]; [congruence|]. destruct cols' as [|c0' cols']; [congruence|].
  unfold bauprc_spec. rewrite (rows_map_perm (fun r => Fin (auprc_spec r)) (fun r r' Hr => f_equal Fin (auprc_spec_perm r r' Hr)) _ _ HR).
  reflexivity.
Qed.
Theorem brap_algo_perm den minp l l' : wpos l -> minp <= 1 -> Permutation l l' -> brap_algo den minp l = brap_algo den minp l'.
Proof.
  intros Hw Hm H. rewrite (brap_algo_spec den minp l Hw Hm), (brap_algo_spec den minp l' (wpos_perm _ _ H Hw) Hm).
  perm_cases H. destruct l as [|x l]; [congruence|]. destruct l' as [|x' l']; [congruence|].
  unfold brap_spec. rewrite (rap_spec_perm minp _ _ H), (rap_thr_spec_perm den minp _ _ H). reflexivity.
Qed.
Theorem mcauprc_algo_perm C macro l l' : Permutation l l' -> mcauprc_algo C macro l = mcauprc_algo C macro l'.
Proof.
  intros H. rewrite !mcauprc_algo_spec. perm_cases H. destruct l as [|x l]; [congruence|]. destruct l' as [|x' l']; [congruence|].
  unfold mcauprc_spec.
  rewrite (rows_map_perm (fun r => Fin (auprc_spec r)) (fun r r' Hr => f_equal Fin (auprc_spec_perm r r' Hr)) _ _ (ovr_rows_perm C _ _ H)).
  reflexivity.
Qed.
Theorem mlauprc_algo_perm L macro l l' : Permutation l l' -> mlauprc_algo L macro l = mlauprc_algo L macro l'.
Proof.
  intros H. rewrite !mlauprc_algo_spec. perm_cases H. destruct l as [|x l]; [congruence|]. destruct l' as [|x' l']; [congruence|].
  unfold mlauprc_spec.
  rewrite (rows_map_perm (fun r => Fin (auprc_spec r)) (fun r r' Hr => f_equal Fin (auprc_spec_perm r r' Hr)) _ _ (label_rows_perm L _ _ H)).
  reflexivity.
Qed.
Theorem mcprc_algo_perm C l l' : Permutation l l' -> mcprc_algo C l = mcprc_algo C l'.
Proof.
  intros H. rewrite !mcprc_algo_spec. perm_cases H. destruct l as [|x l]; [congruence|]. destruct l' as [|x' l']; [congruence|].
  unfold mcprc_spec.
  rewrite (rows_map_perm (fun r => fin_curve (prc_spec r)) (fun r r' Hr => f_equal fin_curve (prc_spec_perm r r' Hr)) _ _ (ovr_rows_perm C _ _ H)).
  reflexivity.
Qed.
Theorem mlprc_algo_perm L l l' : Permutation l l' -> mlprc_algo L l = mlprc_algo L l'.
Proof.
  intros H. rewrite !mlprc_algo_spec. perm_cases H. destruct l as [|x l]; [congruence|]. destruct l' as [|x' l']; [congruence|].
  unfold mlprc_spec.
  rewrite (rows_map_perm (fun r => fin_curve (prc_spec r)) (fun r r' Hr => f_equal fin_curve (prc_spec_perm r r' Hr)) _ _ (label_rows_perm L _ _ H)).
  reflexivity.
Qed.
Theorem mlrap_algo_perm den minp L l l' : minp <= 1 -> Permutation l l' -> mlrap_algo den minp L l = mlrap_algo den minp L l'.
Proof.
  intros Hm H. rewrite !mlrap_algo_spec by exact Hm. perm_cases H. destruct l as [|x l]; [congruence|]. destruct l' as [|x' l']; [congruence|].
  unfold mlrap_spec.
  rewrite (rows_map_perm (fun r => (Fin (rap_spec minp r), rap_thr_spec den minp r))
             (fun r r' Hr => f_equal2 (fun a b => (Fin a, b)) (rap_spec_perm minp r r' Hr) (rap_thr_spec_perm den minp r r' Hr)) _ _ (label_rows_perm L _ _ H)).
  reflexivity.
Qed.

(* ------------------------------------------------------------------------------------------ *)
(* per class: C03 (fn entry point on the concatenation) and C12 batching invariance           *)
(* ------------------------------------------------------------------------------------------ *)
Notation crun M c bs := (cmp M c (fold_left (upd M c) bs (init M c))).
Lemma bauroc_class_fn cv bv c bs : dec_bcfg cv = Some c -> dec_bcols c bv = Some (List.concat bs) ->
  Forall (fun b => bvalid c b = true) bs ->
  run_bauroc_fn (VL [cv; bv]) = enc_out bauroc_codec c (crun bauroc_metric c bs).
Proof. intros Hc Hb Hv. exact (run_fn_eq_class bcfg bcol (res Qc) bvalid (fun c => bauroc_algo (snd c)) _ _ _ cv bv c bs Hc Hb Hv (bvalid_concat c bs Hv)). Qed.
Lemma bauroc_batching c bs bs' : Forall (fun b => bvalid c b = true) bs -> Forall (fun b => bvalid c b = true) bs' ->
  List.concat bs = List.concat bs' -> crun bauroc_metric c bs = crun bauroc_metric c bs'.
Proof. intros H1 H2 He. exact (batching_invariant bcfg bcol (res Qc) bvalid (fun c => bauroc_algo (snd c)) c bs bs' H1 H2 He). Qed.
Lemma bauprc_class_fn cv bv c bs : dec_bcfg cv = Some c -> dec_bcols c bv = Some (List.concat bs) ->
  Forall (fun b => bvalid c b = true) bs ->
  run_bauprc_fn (VL [cv; bv]) = enc_out bauprc_codec c (crun bauprc_metric c bs).
Proof. intros Hc Hb Hv. exact (run_fn_eq_class bcfg bcol (res xq) bvalid (fun c => bauprc_algo (snd c)) _ _ _ cv bv c bs Hc Hb Hv (bvalid_concat c bs Hv)). Qed.
Lemma bauprc_batching c bs bs' : Forall (fun b => bvalid c b = true) bs -> Forall (fun b => bvalid c b = true) bs' ->
  List.concat bs = List.concat bs' -> crun bauprc_metric c bs = crun bauprc_metric c bs'.
Proof. intros H1 H2 He. exact (batching_invariant bcfg bcol (res xq) bvalid (fun c => bauprc_algo (snd c)) c bs bs' H1 H2 He). Qed.
Lemma bprc_class_fn cv bv c bs : dec_b1cfg cv = Some c -> dec_b1 c bv = Some (List.concat bs) ->
  Forall (fun b => vtrue1 c b = true) bs ->
  run_bprc_fn (VL [cv; bv]) = enc_out bprc_codec c (crun bprc_metric c bs).
Proof. intros Hc Hb Hv. exact (run_fn_eq_class b1cfg sample (option curve) vtrue1 (fun _ => bprc_algo) _ _ _ cv bv c bs Hc Hb Hv (eq_refl)). Qed.
Lemma bprc_batching c bs bs' : Forall (fun b => vtrue1 c b = true) bs -> Forall (fun b => vtrue1 c b = true) bs' ->
  List.concat bs = List.concat bs' -> crun bprc_metric c bs = crun bprc_metric c bs'.
Proof. intros H1 H2 He. exact (batching_invariant b1cfg sample (option curve) vtrue1 (fun _ => bprc_algo) c bs bs' H1 H2 He). Qed.
Lemma brap_class_fn cv bv c bs : dec_b1cfg cv = Some c -> dec_b1 c bv = Some (List.concat bs) ->
  Forall (fun b => vtrue1 c b = true) bs ->
  run_brap_fn (VL [cv; bv]) = enc_out brap_codec c (crun brap_metric c bs).
Proof. intros Hc Hb Hv. exact (run_fn_eq_class b1cfg sample (option (xq * Z)) vtrue1 (fun c => brap_algo (fst c) (snd c)) _ _ _ cv bv c bs Hc Hb Hv (eq_refl)). Qed.
Lemma brap_batching c bs bs' : Forall (fun b => vtrue1 c b = true) bs -> Forall (fun b => vtrue1 c b = true) bs' ->
  List.concat bs = List.concat bs' -> crun brap_metric c bs = crun brap_metric c bs'.
Proof. intros H1 H2 He. exact (batching_invariant b1cfg sample (option (xq * Z)) vtrue1 (fun c => brap_algo (fst c) (snd c)) c bs bs' H1 H2 He). Qed.
Lemma mcauroc_class_fn cv bv c bs : dec_mcfg cv = Some c -> dec_mc c bv = Some (List.concat bs) ->
  Forall (fun b => mcvalid c b = true) bs ->
  run_mcauroc_fn (VL [cv; bv]) = enc_out mcauroc_codec c (crun mcauroc_metric c bs).
Proof. intros Hc Hb Hv. exact (run_fn_eq_class mcfg mcsample (res Qc) mcvalid (fun c => mcauroc_algo (mnum c) (mmacro c)) _ _ _ cv bv c bs Hc Hb Hv (mcvalid_concat c bs Hv)). Qed.
Lemma mcauroc_batching c bs bs' : Forall (fun b => mcvalid c b = true) bs -> Forall (fun b => mcvalid c b = true) bs' ->
  List.concat bs = List.concat bs' -> crun mcauroc_metric c bs = crun mcauroc_metric c bs'.
Proof. intros H1 H2 He. exact (batching_invariant mcfg mcsample (res Qc) mcvalid (fun c => mcauroc_algo (mnum c) (mmacro c)) c bs bs' H1 H2 He). Qed.
Lemma mcauprc_class_fn cv bv c bs : dec_mcfg cv = Some c -> dec_mc c bv = Some (List.concat bs) ->
  Forall (fun b => mcvalid c b = true) bs ->
  run_mcauprc_fn (VL [cv; bv]) = enc_out mcauprc_codec c (crun mcauprc_metric c bs).
Proof. intros Hc Hb Hv. exact (run_fn_eq_class mcfg mcsample (res xq) mcvalid (fun c => mcauprc_algo (mnum c) (mmacro c)) _ _ _ cv bv c bs Hc Hb Hv (mcvalid_concat c bs Hv)). Qed.
Lemma mcauprc_batching c bs bs' : Forall (fun b => mcvalid c b = true) bs -> Forall (fun b => mcvalid c b = true) bs' ->
  List.concat bs = List.concat bs' -> crun mcauprc_metric c bs = crun mcauprc_metric c bs'.
Proof. intros H1 H2 He. exact (batching_invariant mcfg mcsample (res xq) mcvalid (fun c => mcauprc_algo (mnum c) (mmacro c)) c bs bs' H1 H2 He). Qed.
Lemma mlauprc_class_fn cv bv c bs : dec_mcfg cv = Some c -> dec_ml c bv = Some (List.concat bs) ->
  Forall (fun b => mlvalid c b = true) bs ->
  run_mlauprc_fn (VL [cv; bv]) = enc_out mlauprc_codec c (crun mlauprc_metric c bs).
Proof. intros Hc Hb Hv. exact (run_fn_eq_class mcfg mlsample (res xq) mlvalid (fun c => mlauprc_algo (mnum c) (mmacro c)) _ _ _ cv bv c bs Hc Hb Hv (mlvalid_concat c bs Hv)). Qed.
Lemma mlauprc_batching c bs bs' : Forall (fun b => mlvalid c b = true) bs -> Forall (fun b => mlvalid c b = true) bs' ->
  List.concat bs = List.concat bs' -> crun mlauprc_metric c bs = crun mlauprc_metric c bs'.
Proof. intros H1 H2 He. exact (batching_invariant mcfg mlsample (res xq) mlvalid (fun c => mlauprc_algo (mnum c) (mmacro c)) c bs bs' H1 H2 He). Qed.
Lemma mcprc_class_fn cv bv c bs : dec_mcfg cv = Some c -> dec_mc c bv = Some (List.concat bs) ->
  Forall (fun b => mcvalid c b = true) bs ->
  run_mcprc_fn (VL [cv; bv]) = enc_out mcprc_codec c (crun mcprc_metric c bs).
Proof. intros Hc Hb Hv. exact (run_fn_eq_class mcfg mcsample _ mcvalid (fun c => mcprc_algo (mnum c)) _ _ _ cv bv c bs Hc Hb Hv (mcvalid_concat c bs Hv)). Qed.
Lemma mcprc_batching c bs bs' : Forall (fun b => mcvalid c b = true) bs -> Forall (fun b => mcvalid c b = true) bs' ->
  List.concat bs = List.concat bs' -> crun mcprc_metric c bs = crun mcprc_metric c bs'.
Proof. intros H1 H2 He. exact (batching_invariant mcfg mcsample _ mcvalid (fun c => mcprc_algo (mnum c)) c bs bs' H1 H2 He). Qed.
Lemma mlprc_class_fn cv bv c bs : dec_mcfg cv = Some c -> dec_ml c bv = Some (List.concat bs) ->
  Forall (fun b => mlvalid c b = true) bs ->
  run_mlprc_fn (VL [cv; bv]) = enc_out mlprc_codec c (crun mlprc_metric c bs).
Proof. intros Hc Hb Hv. exact (run_fn_eq_class mcfg mlsample _ mlvalid (fun c => mlprc_algo (mnum c)) _ _ _ cv bv c bs Hc Hb Hv (mlvalid_concat c bs Hv)). Qed.
Lemma mlprc_batching c bs bs' : Forall (fun b => mlvalid c b = true) bs -> Forall (fun b => mlvalid c b = true) bs' ->
  List.concat bs = List.concat bs' -> crun mlprc_metric c bs = crun mlprc_metric c bs'.
Proof. intros H1 H2 He. exact (batching_invariant mcfg mlsample _ mlvalid (fun c => mlprc_algo (mnum c)) c bs bs' H1 H2 He). Qed.
Lemma mlrap_class_fn cv bv c bs : dec_mcfg cv = Some c -> dec_ml c bv = Some (List.concat bs) ->
  Forall (fun b => mlvalid c b = true) bs ->
  run_mlrap_fn (VL [cv; bv]) = enc_out mlrap_codec c (crun mlrap_metric c bs).
Proof. intros Hc Hb Hv. exact (run_fn_eq_class mcfg mlsample _ mlvalid (fun c => mlrap_algo (mden c) (mminp c) (mnum c)) _ _ _ cv bv c bs Hc Hb Hv (mlvalid_concat c bs Hv)). Qed.
Lemma mlrap_batching c bs bs' : Forall (fun b => mlvalid c b = true) bs -> Forall (fun b => mlvalid c b = true) bs' ->
  List.concat bs = List.concat bs' -> crun mlrap_metric c bs = crun mlrap_metric c bs'.
Proof. intros H1 H2 He. exact (batching_invariant mcfg mlsample _ mlvalid (fun c => mlrap_algo (mden c) (mminp c) (mnum c)) c bs bs' H1 H2 He). Qed.
Lemma bauroc_order c bs bs' : Forall (fun b => bvalid c b = true) bs -> Forall (fun b => bvalid c b = true) bs' ->
  Permutation (List.concat bs) (List.concat bs') -> crun bauroc_metric c bs = crun bauroc_metric c bs'.
Proof. intros H1 H2 He. exact (order_invariant_of bcfg bcol (res Qc) bvalid (fun c => bauroc_algo (snd c)) c bs bs' (fun l l' Hp => bauroc_algo_perm (snd c) l l' Hp) H1 H2 He). Qed.
Lemma mcauroc_order c bs bs' : Forall (fun b => mcvalid c b = true) bs -> Forall (fun b => mcvalid c b = true) bs' ->
  Permutation (List.concat bs) (List.concat bs') -> crun mcauroc_metric c bs = crun mcauroc_metric c bs'.
Proof. intros H1 H2 He. exact (order_invariant_of mcfg mcsample (res Qc) mcvalid (fun c => mcauroc_algo (mnum c) (mmacro c)) c bs bs' (fun l l' Hp => mcauroc_algo_perm (mnum c) (mmacro c) l l' Hp) H1 H2 He). Qed.
Lemma mcauprc_order c bs bs' : Forall (fun b => mcvalid c b = true) bs -> Forall (fun b => mcvalid c b = true) bs' ->
  Permutation (List.concat bs) (List.concat bs') -> crun mcauprc_metric c bs = crun mcauprc_metric c bs'.
Proof. intros H1 H2 He. exact (order_invariant_of mcfg mcsample (res xq) mcvalid (fun c => mcauprc_algo (mnum c) (mmacro c)) c bs bs' (fun l l' Hp => mcauprc_algo_perm (mnum c) (mmacro c) l l' Hp) H1 H2 He). Qed.
Lemma mlauprc_order c bs bs' : Forall (fun b => mlvalid c b = true) bs -> Forall (fun b => mlvalid c b = true) bs' ->
  Permutation (List.concat bs) (List.concat bs') -> crun mlauprc_metric c bs = crun mlauprc_metric c bs'.
Proof. intros H1 H2 He. exact (order_invariant_of mcfg mlsample (res xq) mlvalid (fun c => mlauprc_algo (mnum c) (mmacro c)) c bs bs' (fun l l' Hp => mlauprc_algo_perm (mnum c) (mmacro c) l l' Hp) H1 H2 He). Qed.
Lemma mcprc_order c bs bs' : Forall (fun b => mcvalid c b = true) bs -> Forall (fun b => mcvalid c b = true) bs' ->
  Permutation (List.concat bs) (List.concat bs') -> crun mcprc_metric c bs = crun mcprc_metric c bs'.
Proof. intros H1 H2 He. exact (order_invariant_of mcfg mcsample _ mcvalid (fun c => mcprc_algo (mnum c)) c bs bs' (fun l l' Hp => mcprc_algo_perm (mnum c) l l' Hp) H1 H2 He). Qed.
Lemma mlprc_order c bs bs' : Forall (fun b => mlvalid c b = true) bs -> Forall (fun b => mlvalid c b = true) bs' ->
  Permutation (List.concat bs) (List.concat bs') -> crun mlprc_metric c bs = crun mlprc_metric c bs'.
Proof. intros H1 H2 He. exact (order_invariant_of mcfg mlsample _ mlvalid (fun c => mlprc_algo (mnum c)) c bs bs' (fun l l' Hp => mlprc_algo_perm (mnum c) l l' Hp) H1 H2 He). Qed.
Lemma bauprc_order c bs bs' : Forall (fun b => bvalid c b = true) bs -> Forall (fun b => bvalid c b = true) bs' ->
  Forall wpos (task_rows (snd c) (List.concat bs)) ->
  Permutation (List.concat bs) (List.concat bs') -> crun bauprc_metric c bs = crun bauprc_metric c bs'.
Proof.
  intros H1 H2 Hw He. change (class_run bcfg bcol (res xq) bvalid (fun c => bauprc_algo (snd c)) c bs = class_run bcfg bcol (res xq) bvalid (fun c => bauprc_algo (snd c)) c bs').
  rewrite !class_run_concat by assumption. apply bauprc_algo_perm; assumption.
Qed.
Lemma bprc_order c bs bs' : wpos (List.concat bs) ->
  Permutation (List.concat bs) (List.concat bs') -> crun bprc_metric c bs = crun bprc_metric c bs'.
Proof.
  intros Hw He. change (class_run b1cfg sample (option curve) vtrue1 (fun _ => bprc_algo) c bs = class_run b1cfg sample (option curve) vtrue1 (fun _ => bprc_algo) c bs').
  rewrite !class_run_concat by (apply Forall_forall; reflexivity). apply bprc_algo_perm; assumption.
Qed.
Lemma brap_order c bs bs' : wpos (List.concat bs) -> snd c <= 1 ->
  Permutation (List.concat bs) (List.concat bs') -> crun brap_metric c bs = crun brap_metric c bs'.
Proof.
  intros Hw Hm He. change (class_run b1cfg sample (option (xq * Z)) vtrue1 (fun c => brap_algo (fst c) (snd c)) c bs = class_run b1cfg sample (option (xq * Z)) vtrue1 (fun c => brap_algo (fst c) (snd c)) c bs').
  rewrite !class_run_concat by (apply Forall_forall; reflexivity). apply brap_algo_perm; assumption.
Qed.
Lemma mlrap_order c bs bs' : Forall (fun b => mlvalid c b = true) bs -> Forall (fun b => mlvalid c b = true) bs' -> mminp c <= 1 ->
  Permutation (List.concat bs) (List.concat bs') -> crun mlrap_metric c bs = crun mlrap_metric c bs'.
Proof.
  intros H1 H2 Hm He. exact (order_invariant_of mcfg mlsample _ mlvalid (fun c => mlrap_algo (mden c) (mminp c) (mnum c)) c bs bs' (fun l l' Hp => mlrap_algo_perm (mden c) (mminp c) (mnum c) l l' Hm Hp) H1 H2 He).
Qed.
