(* Value-level model of a metric class (DESIGN 3.3/3.4).  All fields are executable. *)
From Coq Require Import List Bool.
Import ListNotations.

Record Metric := {
  cfg : Type; st : Type; batch : Type; out : Type;
  init : cfg -> st;
  valid : cfg -> batch -> bool;               (* update() accepts the batch *)
  upd : cfg -> st -> batch -> st;             (* update() on an accepted batch *)
  mrg : cfg -> st -> list st -> st;           (* merge_state(sources) *)
  cmp : cfg -> st -> out;                     (* compute() *)
  prep : cfg -> st -> st;                     (* _prepare_for_merge_state() *)
  save : cfg -> st -> st;                     (* state_dict(): registered part (unregistered attrs at their constructor value) *)
  load : cfg -> st -> st -> st;               (* load_state_dict: target object, saved dict *)
  rst : cfg -> st -> st }.                    (* reset() *)

(* a metric all of whose attributes are registered states *)
Definition plain (cfg st batch out : Type) init valid upd mrg cmp prep : Metric :=
  {| cfg := cfg; st := st; batch := batch; out := out; init := init; valid := valid; upd := upd;
     mrg := mrg; cmp := cmp; prep := prep;
     save := fun _ s => s; load := fun _ _ d => d; rst := fun c _ => init c |}.
