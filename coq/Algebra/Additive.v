(* The additive family: state = nested array of sums, update adds beta(batch), merge adds the
   sources.  One functor builds the Metric and its Alg instance (with commutative op). *)
From Coq Require Import List Bool.
From TE Require Import Base.Val Base.Nd Algebra.Metric Algebra.MergeTree Algebra.Pool.
Import ListNotations.

Record AddSpec := {
  acfg : Type; abatch : Type; aout : Type;
  azero : acfg -> nd;
  avalid : acfg -> abatch -> bool;
  abeta : acfg -> abatch -> nd;
  agamma : acfg -> nd -> aout;
  azero_zero : forall c, is_zero (azero c) = true;
  abeta_shape : forall c b, avalid c b = true -> same (azero c) (abeta c b) = true }.

Definition add_metric (S : AddSpec) : Metric :=
  plain (acfg S) nd (abatch S) (aout S) (azero S) (avalid S)
    (fun c s b => nadd s (abeta S c b)) (fun c s ms => fold_left nadd ms s) (agamma S) (fun _ s => s).

Section Add.
Variable S : AddSpec.
Definition okS (c : acfg S) (x : nd) : Prop := same (azero S c) x = true.

Lemma okS_op c x y : okS c x -> okS c y -> okS c (nadd x y).
Proof.
  unfold okS. intros Hx Hy.
  assert (Hxy : same x y = true).
  { apply (same_trans x (azero S c) y); [rewrite same_sym; exact Hx|exact Hy]. }
  pose proof (nadd_same x y Hxy) as H. rewrite same_sym in H.
  apply (same_trans (azero S c) x (nadd x y)); assumption.
Qed.
Lemma okS_fold c : forall ms s, okS c s -> Forall (okS c) ms -> okS c (fold_left nadd ms s).
Proof.
  induction ms as [|m ms IH]; intros s Hs Hm; cbn [fold_left]; [assumption|].
  inversion Hm; subst. apply IH; [apply okS_op|]; assumption.
Qed.

Definition add_alg : Alg (add_metric S).
Proof.
  refine (Build_Alg (add_metric S) nd (azero S) nadd okS _ _ _ _ _
            (fun _ s => s) (abeta S) (agamma S) okS _ _ _ _ _ _ _).
  - exact nadd_assoc.
  - intros c. unfold okS. apply same_refl.
  - exact okS_op.
  - intros c x Hx. apply nadd_zero_l; [apply azero_zero|exact Hx].
  - intros c x Hx. apply nadd_zero_r; [apply azero_zero|exact Hx].
  - intros c b Hb. apply (abeta_shape S c b Hb).
  - intros c s Hs. exact Hs.
  - intros c. unfold okS. apply same_refl.
  - reflexivity.
  - intros c s b Hs Hb. split; [reflexivity|]. apply okS_op; [exact Hs|apply (abeta_shape S c b Hb)].
  - intros c s ms Hs Hm. cbn. rewrite map_id. split; [reflexivity|]. apply okS_fold; assumption.
  - reflexivity.
Defined.

Lemma add_alg_comm : forall x y : A add_alg, op add_alg x y = op add_alg y x.
Proof. exact nadd_comm. Qed.
End Add.

Definition add_codec (S : AddSpec) (dc : val -> option (acfg S)) (db : acfg S -> val -> option (abatch S))
  (eo : acfg S -> aout S -> val) : Codec (add_metric S) :=
  Build_Codec (add_metric S) dc db (fun _ s => nd_val s) eo.
