(* Single-object behaviour and frame properties of the pool semantics: the statements behind
   C09 (checkpoint / clone reproduce present and future behaviour), C10 (reset = fresh) and
   C11 (non-interference) at the level of the value model. *)
From Coq Require Import ZArith List Bool String Lia.
From TE Require Import Base.Val Algebra.Metric Algebra.Pool.
Import ListNotations.

Section Behave.
Variable M : Metric.
Variable c : cfg M.

(* what can happen to one object from now on *)
Inductive sop := SUpd (b : batch M) | SMerge (srcs : list (st M)) | SCompute | SPrep.
Inductive sobs := OState (s : st M) | ORaise | OOut (o : out M).

Fixpoint behave (s : st M) (ops : list sop) : list sobs :=
  match ops with
  | [] => []
  | SUpd b :: r => if valid M c b then let s' := upd M c s b in OState s' :: behave s' r
                   else ORaise :: behave s r
  | SMerge srcs :: r => let s' := mrg M c s srcs in OState s' :: behave s' r
  | SCompute :: r => OOut (cmp M c s) :: behave s r
  | SPrep :: r => let s' := prep M c s in OState s' :: behave s' r
  end.

(* all attributes that update/merge/compute read and write are registered states *)
Definition registered_only : Prop :=
  (forall s, save M c s = s) /\ (forall t d, load M c t d = d) /\ (forall s, rst M c s = init M c).

Lemma restore_bisim : registered_only -> forall s t ops,
  behave (load M c t (save M c s)) ops = behave s ops.
Proof. intros [Hs [Hl _]] s t ops. rewrite Hl, Hs. reflexivity. Qed.

Lemma reset_bisim : registered_only -> forall s ops,
  behave (rst M c s) ops = behave (init M c) ops.
Proof. intros [_ [_ Hr]] s ops. rewrite Hr. reflexivity. Qed.

Lemma failed_update_keeps_state : forall s b ops, valid M c b = false ->
  behave s (SUpd b :: ops) = ORaise :: behave s ops.
Proof. intros s b ops H. cbn [behave]. rewrite H. reflexivity. Qed.
End Behave.

(* frame: an operation on object i leaves every other object and every saved dict unchanged *)
Section Frame.
Variable M : Metric.
Variable K : Codec M.
Variable c : cfg M.

Lemma get_set_nth_other : forall (l : list (st M)) i k x, i <> k -> get M c k (set_nth i x l) = get M c k l.
Proof.
  unfold get. induction l as [|y l IH]; intros [|i] [|k] x H; cbn [set_nth nth]; try reflexivity; try congruence.
  apply IH. congruence.
Qed.

(* the object(s) an op may write *)
Definition writes (o : val) : list nat :=
  match o with
  | VT t args =>
    if (String.eqb t "clone") then match args with [_; j] => [nat_of j] | _ => [] end
    else if (String.eqb t "compute") || (String.eqb t "state") || (String.eqb t "save") then []
    else match args with i :: _ => [nat_of i] | _ => [] end
  | _ => []
  end.

Lemma step_frame : forall p o k, ~ In k (writes o) ->
  get M c k (objs M (fst (step M K c p o))) = get M c k (objs M p).
Proof.
  intros p o k Hk. destruct o as [| | | |t args]; try reflexivity.
  unfold step, writes in *.
  repeat match goal with
  | |- context [if String.eqb ?a ?b then _ else _] => destruct (String.eqb a b) eqn:?
  | H : context [if String.eqb ?a ?b then _ else _] |- _ => destruct (String.eqb a b) eqn:?
  end; cbn [orb] in *;
  repeat match goal with
  | |- context [match ?l with [] => _ | _ :: _ => _ end] => destruct l
  | |- context [match ?v with VZ _ => _ | VQ _ _ => _ | VB _ => _ | VL _ => _ | VT _ _ => _ end] => destruct v
  | |- context [match dec_batch K c ?b with Some _ => _ | None => _ end] => destruct (dec_batch K c b)
  | |- context [if valid M c ?b then _ else _] => destruct (valid M c b)
  end; cbn [fst objs]; try reflexivity;
  try (apply get_set_nth_other; cbn [In] in Hk; intuition congruence);
  repeat match goal with H : String.eqb _ _ = true |- _ => apply String.eqb_eq in H; subst end;
  try discriminate; cbn in Hk; apply get_set_nth_other; intuition congruence.
Qed.

Lemma compute_pure : forall p i, fst (step M K c p (VT "compute" [i])) = p.
Proof. intros p i. reflexivity. Qed.
End Frame.
