(* The cache family: state = list of cached chunks (raw update inputs); update appends, merge
   appends one concatenated chunk per non-empty source, _prepare_for_merge_state collapses the
   list into one chunk, compute is a function of the concatenation.  The abstraction is the list
   of samples seen, in merge order (monoid = list append, NOT commutative: order-insensitivity of
   a particular metric is a separate theorem about its compute function). *)
From Coq Require Import List Bool.
From TE Require Import Base.Val Algebra.Metric Algebra.MergeTree Algebra.Pool.
Import ListNotations.

Record CacheSpec := {
  ccfg : Type; cchunk : Type; csample : Type; cout : Type;
  cvalid : ccfg -> cchunk -> bool;
  ccat : ccfg -> list cchunk -> cchunk;              (* torch.cat over the per-field lists *)
  csamples : ccfg -> cchunk -> list csample;         (* the samples (columns) of a chunk, in order *)
  cfun : ccfg -> list csample -> cout;               (* compute() as a function of all samples seen *)
  csamples_cat : forall c l, csamples c (ccat c l) = flat_map (csamples c) l }.

Definition is_nil {X} (l : list X) : bool := match l with [] => true | _ => false end.

Definition cache_merge (S : CacheSpec) (c : ccfg S) (s : list (cchunk S)) (ms : list (list (cchunk S))) :=
  fold_left (fun s m => if is_nil m then s else s ++ [ccat S c m]) ms s.

Definition cache_metric (S : CacheSpec) : Metric :=
  plain (ccfg S) (list (cchunk S)) (cchunk S) (cout S)
    (fun _ => []) (cvalid S)
    (fun c s b => s ++ [b])
    (cache_merge S)
    (fun c s => cfun S c (flat_map (csamples S c) s))
    (fun c s => if is_nil s then s else [ccat S c s]).

Section CacheAlg.
Variable S : CacheSpec.

Lemma cache_merge_flat c : forall ms s,
  flat_map (csamples S c) (cache_merge S c s ms) =
  fold_left (@app _) (map (flat_map (csamples S c)) ms) (flat_map (csamples S c) s).
Proof.
  unfold cache_merge. induction ms as [|m ms IH]; intros s; cbn [fold_left map]; [reflexivity|].
  rewrite IH. f_equal. destruct m as [|x m]; cbn [is_nil].
  - cbn [flat_map]. rewrite app_nil_r. reflexivity.
  - rewrite flat_map_app. cbn [flat_map]. rewrite app_nil_r, csamples_cat. reflexivity.
Qed.

Definition cache_alg : Alg (cache_metric S).
Proof.
  refine (Build_Alg (cache_metric S) (list (csample S)) (fun _ => []) (@app _) (fun _ _ => True) _ _ _ _ _
            (fun c s => flat_map (csamples S c) s) (fun c b => csamples S c b) (cfun S) (fun _ _ => True)
            _ _ _ _ _ _ _).
  - intros x y z. apply app_assoc.
  - intros; exact I.
  - intros; exact I.
  - intros; reflexivity.
  - intros; apply app_nil_r.
  - intros; exact I.
  - intros; exact I.
  - intros; exact I.
  - reflexivity.
  - intros c s b _ _. split; [|exact I]. cbn. rewrite flat_map_app. cbn [flat_map]. rewrite app_nil_r. reflexivity.
  - intros c s ms _ _. split; [|exact I]. cbn. apply cache_merge_flat.
  - reflexivity.
Defined.

(* _prepare_for_merge_state does not change what compute() sees *)
Lemma prep_preserves c s : flat_map (csamples S c) (prep (cache_metric S) c s) = flat_map (csamples S c) s.
Proof.
  cbn. destruct s as [|x s]; cbn [is_nil]; [reflexivity|].
  cbn [flat_map]. rewrite app_nil_r, csamples_cat. reflexivity.
Qed.
End CacheAlg.
