(* Object pools and histories (DESIGN 3.4): an interpreter for operation histories over several
   objects of one metric class, producing one observation per operation.  The harness runs the
   same history on the real classes and compares observation by observation (state-level). *)
From Coq Require Import ZArith List Bool String.
From TE Require Import Base.Val Algebra.Metric.
Import ListNotations.
Open Scope string_scope.

Record Codec (M : Metric) := {
  dec_cfg : val -> option (cfg M);
  dec_batch : cfg M -> val -> option (batch M);
  enc_st : cfg M -> st M -> val;
  enc_out : cfg M -> out M -> val }.
Arguments dec_cfg {M}. Arguments dec_batch {M}. Arguments enc_st {M}. Arguments enc_out {M}.

Section Pool.
Variable M : Metric.
Variable K : Codec M.
Variable c : cfg M.

Record pool := { objs : list (st M); dicts : list (st M) }.

Fixpoint set_nth {X} (n : nat) (x : X) (l : list X) : list X :=
  match n, l with
  | _, [] => []
  | O, _ :: r => x :: r
  | S n, y :: r => y :: set_nth n x r
  end.
Definition get (n : nat) (l : list (st M)) : st M := nth n l (init M c).

Definition nat_of (v : val) : nat := match v with VZ z => Z.to_nat z | _ => 0 end.

(* one operation: new pool and observation *)
Definition step (p : pool) (o : val) : pool * val :=
  match o with
  | VT t args =>
    if t =? "upd" then
      match args with
      | [i; b] => let i := nat_of i in
        match dec_batch K c b with
        | Some b => if valid M c b
                    then let s := upd M c (get i (objs p)) b in
                         ({| objs := set_nth i s (objs p); dicts := dicts p |}, enc_st K c s)
                    else (p, VT "raise" [enc_st K c (get i (objs p))])
        | None => (p, vbad)
        end
      | _ => (p, vbad) end
    else if t =? "merge" then
      match args with
      | [i; VL js] => let i := nat_of i in
        let s := mrg M c (get i (objs p)) (map (fun j => get (nat_of j) (objs p)) js) in
        ({| objs := set_nth i s (objs p); dicts := dicts p |}, enc_st K c s)
      | _ => (p, vbad) end
    else if t =? "compute" then
      match args with
      | [i] => (p, enc_out K c (cmp M c (get (nat_of i) (objs p))))
      | _ => (p, vbad) end
    else if t =? "state" then
      match args with
      | [i] => (p, enc_st K c (get (nat_of i) (objs p)))
      | _ => (p, vbad) end
    else if t =? "reset" then
      match args with
      | [i] => let i := nat_of i in let s := rst M c (get i (objs p)) in
        ({| objs := set_nth i s (objs p); dicts := dicts p |}, enc_st K c s)
      | _ => (p, vbad) end
    else if t =? "prep" then
      match args with
      | [i] => let i := nat_of i in let s := prep M c (get i (objs p)) in
        ({| objs := set_nth i s (objs p); dicts := dicts p |}, enc_st K c s)
      | _ => (p, vbad) end
    else if t =? "clone" then            (* obj j := deep copy of obj i (clone_metric / deepcopy / pickle) *)
      match args with
      | [i; j] => let s := get (nat_of i) (objs p) in
        ({| objs := set_nth (nat_of j) s (objs p); dicts := dicts p |}, enc_st K c s)
      | _ => (p, vbad) end
    else if t =? "save" then             (* dict k := obj i .state_dict() *)
      match args with
      | [i; k] => let d := save M c (get (nat_of i) (objs p)) in
        ({| objs := objs p; dicts := set_nth (nat_of k) d (dicts p) |}, enc_st K c d)
      | _ => (p, vbad) end
    else if t =? "load" then             (* obj j .load_state_dict(dict k) *)
      match args with
      | [j; k] => let j := nat_of j in
        let s := load M c (get j (objs p)) (get (nat_of k) (dicts p)) in
        ({| objs := set_nth j s (objs p); dicts := dicts p |}, enc_st K c s)
      | _ => (p, vbad) end
    else if t =? "new" then              (* obj i := freshly constructed *)
      match args with
      | [i] => ({| objs := set_nth (nat_of i) (init M c) (objs p); dicts := dicts p |}, enc_st K c (init M c))
      | _ => (p, vbad) end
    else (p, vbad)
  | _ => (p, vbad)
  end.

Fixpoint exec (p : pool) (ops : list val) : list val :=
  match ops with
  | [] => []
  | o :: r => let (p', v) := step p o in v :: exec p' r
  end.

Definition pool0 (n : nat) : pool := {| objs := repeat (init M c) n; dicts := repeat (init M c) n |}.
End Pool.

(* harness entry:  (cfg nobj (op ...))  ->  (obs ...) *)
Definition run_pool (M : Metric) (K : Codec M) (v : val) : val :=
  match v with
  | VL [cv; VZ n; VL ops] =>
    match dec_cfg K cv with
    | Some c => VL (exec M K c (pool0 M c (Z.to_nat n)) ops)
    | None => VT "badcfg" []
    end
  | _ => vbad
  end.

(* observational equivalence: same observations under every continuation *)
Definition obs_equiv (M : Metric) (K : Codec M) (c : cfg M) (p q : pool M) : Prop :=
  forall ops, exec M K c p ops = exec M K c q ops.
