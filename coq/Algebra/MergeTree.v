(* The generic merge-tree theorem behind C01 / C03 / C12: a metric whose state abstracts into a
   monoid through [alpha], whose update adds [beta batch] and whose merge multiplies, computes a
   function of the product of the betas of the in-order stream -- for any number of shards,
   empty shards, nested merges and post-merge updates.  With a commutative monoid the result
   depends only on the multiset of batches. *)
From Coq Require Import List Permutation Lia Bool.
From TE Require Import Algebra.Metric.
Import ListNotations.

Record Alg (M : Metric) := {
  A : Type; e : cfg M -> A; op : A -> A -> A;
  okA : cfg M -> A -> Prop;
  op_assoc : forall x y z, op x (op y z) = op (op x y) z;
  ok_e : forall c, okA c (e c);
  ok_op : forall c x y, okA c x -> okA c y -> okA c (op x y);
  op_e_l : forall c x, okA c x -> op (e c) x = x;
  op_e_r : forall c x, okA c x -> op x (e c) = x;
  alpha : cfg M -> st M -> A;
  beta : cfg M -> batch M -> A;
  gamma : cfg M -> A -> out M;
  reach : cfg M -> st M -> Prop;
  ok_beta : forall c b, valid M c b = true -> okA c (beta c b);
  ok_alpha : forall c s, reach c s -> okA c (alpha c s);
  reach_init : forall c, reach c (init M c);
  alpha_init : forall c, alpha c (init M c) = e c;
  upd_hom : forall c s b, reach c s -> valid M c b = true ->
      alpha c (upd M c s b) = op (alpha c s) (beta c b) /\ reach c (upd M c s b);
  mrg_hom : forall c s ms, reach c s -> Forall (reach c) ms ->
      alpha c (mrg M c s ms) = fold_left op (map (alpha c) ms) (alpha c s) /\ reach c (mrg M c s ms);
  cmp_fac : forall c s, reach c s -> cmp M c s = gamma c (alpha c s) }.

Arguments A {M}. Arguments e {M}. Arguments op {M}. Arguments okA {M}. Arguments alpha {M}.
Arguments beta {M}. Arguments gamma {M}. Arguments reach {M}.

Section Generic.
Variable M : Metric.
Variable L : Alg M.
Variable c : cfg M.
Notation "x ** y" := (op L x y) (at level 40, left associativity).
Notation ok := (okA L c).
Notation vld := (fun b => valid M c b = true).

Inductive mtree := Shard (bs : list (batch M)) | Merge (t : mtree) (others : list mtree) (post : list (batch M)).

Fixpoint run (t : mtree) : st M :=
  match t with
  | Shard bs => fold_left (upd M c) bs (init M c)
  | Merge t os post => fold_left (upd M c) post (mrg M c (run t) (map run os))
  end.
Fixpoint stream (t : mtree) : list (batch M) :=
  match t with
  | Shard bs => bs
  | Merge t os post => stream t ++ flat_map stream os ++ post
  end.

Definition prod (l : list (A L)) := fold_left (op L) l (e L c).

Lemma fold_ok : forall l a, ok a -> Forall ok l -> ok (fold_left (op L) l a).
Proof.
  induction l as [|x l IH]; intros a Ha Hl; cbn [fold_left]; [assumption|].
  inversion Hl; subst. apply IH; [apply ok_op|]; assumption.
Qed.
Lemma prod_ok l : Forall ok l -> ok (prod l).
Proof. intros. apply fold_ok; [apply ok_e|assumption]. Qed.

Lemma fold_op_acc : forall l a, ok a -> Forall ok l -> fold_left (op L) l a = a ** prod l.
Proof.
  unfold prod. induction l as [|x l IH]; intros a Ha Hl; cbn [fold_left].
  - symmetry; apply op_e_r; assumption.
  - inversion Hl as [|? ? Hx Hl']; subst.
    rewrite IH by (try apply ok_op; assumption).
    rewrite (IH (e L c ** x)) by (try apply ok_op; try apply ok_e; assumption).
    rewrite (op_e_l _ L c x Hx), op_assoc. reflexivity.
Qed.
Lemma prod_app l1 l2 : Forall ok l1 -> Forall ok l2 -> prod (l1 ++ l2) = prod l1 ** prod l2.
Proof.
  intros H1 H2. unfold prod at 1. rewrite fold_left_app, fold_op_acc; [reflexivity| |assumption].
  apply prod_ok; assumption.
Qed.
Lemma prod_one x : ok x -> prod [x] = x.
Proof. intros. unfold prod. cbn. apply op_e_l; assumption. Qed.
Lemma prod_cons x l : ok x -> Forall ok l -> prod (x :: l) = x ** prod l.
Proof.
  intros Hx Hl. change (x :: l) with ([x] ++ l).
  rewrite prod_app by (try assumption; repeat constructor; assumption). rewrite prod_one by assumption. reflexivity.
Qed.

Lemma betas_ok bs : Forall vld bs -> Forall ok (map (beta L c) bs).
Proof. induction 1; cbn [map]; constructor; [apply ok_beta|]; assumption. Qed.

Lemma updates_hom : forall bs s, reach L c s -> Forall vld bs ->
  alpha L c (fold_left (upd M c) bs s) = alpha L c s ** prod (map (beta L c) bs)
  /\ reach L c (fold_left (upd M c) bs s).
Proof.
  induction bs as [|b bs IH]; intros s Hr Hv; cbn [fold_left map].
  - split; [symmetry; apply op_e_r, ok_alpha; assumption|assumption].
  - inversion Hv as [|? ? Hb Hbs]; subst.
    destruct (upd_hom M L c s b Hr Hb) as [Ha Hr'].
    destruct (IH _ Hr' Hbs) as [IH1 IH2]. split; [|assumption].
    rewrite IH1, Ha, prod_cons by (try apply ok_beta; try apply betas_ok; assumption).
    rewrite op_assoc. reflexivity.
Qed.

Fixpoint mtree_ind' (P : mtree -> Prop)
  (HS : forall bs, P (Shard bs))
  (HM : forall t os post, P t -> Forall P os -> P (Merge t os post)) (t : mtree) : P t :=
  match t with
  | Shard bs => HS bs
  | Merge t os post =>
      HM t os post (mtree_ind' P HS HM t)
        ((fix go (l : list mtree) : Forall P l :=
            match l with [] => Forall_nil _ | x :: r => Forall_cons _ (mtree_ind' P HS HM x) (go r) end) os)
  end.

Theorem merge_tree_sound : forall t, Forall vld (stream t) ->
  alpha L c (run t) = prod (map (beta L c) (stream t)) /\ reach L c (run t).
Proof.
  induction t as [bs|t os post IHt IHos] using mtree_ind'; intros Hv; cbn [run stream] in *.
  - destruct (updates_hom bs _ (reach_init M L c) Hv) as [H1 H2]. split; [|assumption].
    rewrite H1, alpha_init, op_e_l; [reflexivity|]. apply prod_ok, betas_ok; assumption.
  - apply Forall_app in Hv as [Hvt Hv']. apply Forall_app in Hv' as [Hvo Hvp].
    destruct (IHt Hvt) as [IHa IHr].
    assert (Hos : Forall (reach L c) (map run os) /\
                  prod (map (alpha L c) (map run os)) = prod (map (beta L c) (flat_map stream os))).
    { clear -IHos Hvo. induction os as [|o os IH]; [split; [constructor|reflexivity]|].
      cbn [map flat_map] in *.
      inversion IHos as [|? ? Ho Hos']; subst. apply Forall_app in Hvo as [Hv1 Hv2].
      destruct (Ho Hv1) as [Ha Hr]. destruct (IH Hos' Hv2) as [IHf IHp]. split; [constructor; assumption|].
      rewrite map_app, prod_app by (apply betas_ok; assumption).
      rewrite <- IHp, <- Ha. apply prod_cons; [apply ok_alpha; assumption|].
      clear -IHf. induction IHf; cbn [map]; constructor; [apply ok_alpha|]; assumption. }
    destruct Hos as [Hro Hpo].
    destruct (mrg_hom M L c _ _ IHr Hro) as [Hm Hmr].
    destruct (updates_hom post _ Hmr Hvp) as [Hu Hur]. split; [|assumption].
    assert (Hoka : Forall ok (map (alpha L c) (map run os))).
    { clear -Hro. induction Hro; cbn [map]; constructor; [apply ok_alpha|]; assumption. }
    rewrite Hu, Hm, fold_op_acc by (try apply ok_alpha; assumption).
    rewrite IHa, Hpo, !map_app.
    rewrite !prod_app by (repeat (apply Forall_app; split); apply betas_ok; assumption).
    rewrite op_assoc. reflexivity.
Qed.

Corollary merge_tree_compute : forall t, Forall vld (stream t) ->
  cmp M c (run t) = gamma L c (prod (map (beta L c) (stream t))).
Proof. intros t Hv. destruct (merge_tree_sound t Hv) as [Ha Hr]. rewrite (cmp_fac M L c _ Hr), Ha. reflexivity. Qed.

(* one instance that saw everything, in stream order *)
Corollary merge_tree_eq_single : forall t, Forall vld (stream t) ->
  cmp M c (run t) = cmp M c (run (Shard (stream t))).
Proof.
  intros t Hv. rewrite (merge_tree_compute t Hv), (merge_tree_compute (Shard (stream t))) by exact Hv.
  reflexivity.
Qed.

(* commutative case: the result depends only on the multiset of batches *)
Hypothesis op_comm : forall x y, x ** y = y ** x.
Lemma prod_perm : forall l l', Permutation l l' -> Forall ok l -> prod l = prod l'.
Proof.
  induction 1 as [| x l l' Hp IH | x y l | l1 l2 l3 Hp1 IH1 Hp2 IH2]; intros Hok.
  - reflexivity.
  - inversion Hok; subst.
    rewrite !prod_cons by (try assumption; eapply Permutation_Forall; eassumption). rewrite IH by assumption. reflexivity.
  - inversion Hok as [|? ? Hy Hok']; subst. inversion Hok' as [|? ? Hx Hl]; subst.
    rewrite !prod_cons by (repeat constructor; assumption).
    rewrite !op_assoc, (op_comm y x). reflexivity.
  - rewrite IH1 by assumption. apply IH2. eapply Permutation_Forall; eassumption.
Qed.
Corollary merge_tree_any_sharding : forall t t',
  Forall vld (stream t) -> Forall vld (stream t') ->
  Permutation (stream t) (stream t') -> cmp M c (run t) = cmp M c (run t').
Proof.
  intros t t' Hv Hv' Hp. rewrite !merge_tree_compute by assumption. f_equal.
  apply prod_perm; [apply Permutation_map, Hp|apply betas_ok; assumption].
Qed.

(* re-batching: when beta is additive over a concatenation operation on batches *)
Variable bcat : batch M -> batch M -> batch M.
Variable bnil : batch M.
Hypothesis beta_cat : forall b1 b2, valid M c b1 = true -> valid M c b2 = true ->
  beta L c (bcat b1 b2) = beta L c b1 ** beta L c b2.
Hypothesis valid_cat : forall b1 b2, valid M c b1 = true -> valid M c b2 = true -> valid M c (bcat b1 b2) = true.
Hypothesis beta_nil : beta L c bnil = e L c.
Hypothesis valid_nil : valid M c bnil = true.
Definition bconcat (bs : list (batch M)) : batch M := fold_right bcat bnil bs.
Lemma bconcat_valid bs : Forall vld bs -> valid M c (bconcat bs) = true.
Proof. induction 1; cbn [bconcat fold_right]; [apply valid_nil|apply valid_cat; assumption]. Qed.
Lemma beta_bconcat bs : Forall vld bs -> beta L c (bconcat bs) = prod (map (beta L c) bs).
Proof.
  induction 1 as [|b bs Hb Hbs IH]; cbn [bconcat fold_right map].
  - rewrite beta_nil. reflexivity.
  - fold (bconcat bs). rewrite beta_cat by (try assumption; apply bconcat_valid; assumption).
    rewrite IH, prod_cons by (try apply ok_beta; try apply betas_ok; assumption). reflexivity.
Qed.
(* any merge tree = a single instance updated once with the concatenation of everything *)
Corollary merge_tree_eq_one_batch : forall t, Forall vld (stream t) ->
  cmp M c (run t) = cmp M c (run (Shard [bconcat (stream t)])).
Proof.
  intros t Hv. rewrite (merge_tree_compute t Hv).
  rewrite (merge_tree_compute (Shard [bconcat (stream t)])).
  2:{ cbn [stream]. constructor; [apply bconcat_valid; assumption|constructor]. }
  cbn [stream map]. rewrite prod_one by (apply ok_beta, bconcat_valid; assumption).
  rewrite beta_bconcat by assumption. reflexivity.
Qed.
End Generic.
